#!/bin/bash
# Builds /verif/.venv: an overlay of /venv (the repository's interpreter and deps)
# plus z3-solver, cvc5, sympy, jsonschema from the offline wheelhouse.  Idempotent.
set -e
cd "$(dirname "$0")"
V=.venv
if [ -x $V/bin/python ] && $V/bin/python -c "import z3, cvc5, sympy, cryptography" 2>/dev/null; then
  exit 0
fi
rm -rf $V
/venv/bin/python -m venv $V
SP=$($V/bin/python -c "import site;print(site.getsitepackages()[0])")
echo "import site; site.addsitedir('/venv/lib/python3.12/site-packages')" > $SP/_overlay.pth
PIP_NO_INDEX=1 $V/bin/python -m pip install -q --no-index --find-links /opt/veriftools/wheels z3-solver cvc5 sympy jsonschema >/dev/null
$V/bin/python -c "import z3, cvc5, sympy, cryptography; print('verif venv ok', z3.get_version_string())"
