"""C11 -- secret scalars are sampled without bias and only from the entropy function."""
import z3
from symx.core import Ctx, SymInt, SymBytes, SymBool, Flags, T, B, PathAbort, model_int
from symx import loader
from symx.proto import (Entropy, setup_hash_axioms, outcome, okind, orders, new_instance, restore, sym_inputs,
                        abstract_params, klass, PEER, SIDE_BYTE)

PID = "C11"
TECHNIQUE = 'symbolic execution of unbiased_randrange / random_scalar with symbolic range and entropy bytes (up to D draws): z3 decides request sizes, candidate = value mod 2^bits, rejection condition, range; entropy discipline of the classes'
LEVEL_NOTE = 'counting argument for uniformity; loop body memoryless; entropy sources return exactly the requested number of bytes'
EXPLANATION = (
    "The real util.unbiased_randrange/generate_mask/random_list_of_ints/mask_list_of_ints/list_of_ints_to_number, "
    "IntegerGroup.random_scalar and ed25519_basic.random_scalar run on symbolic start, symbolic range width (bit "
    "length forked over the stated bound; the three shipped q at full width) and symbolic entropy bytes for up to D "
    "draws. Per accepting path the solver proves: every draw requested exactly ceil(bits/8) bytes; the candidate of a "
    "draw is (the bytes as a big-endian integer) mod 2^bits; every earlier draw was rejected because its candidate "
    "was >= width and the accepted one is < width; the result is start + candidate and lies in [start, stop). Together "
    "with 'candidate = value mod 2^bits' (each residue has exactly 2^(8n-bits) preimages among the 256^n strings) this "
    "is exact uniformity; width <= 2^bits <= 2*width gives acceptance probability >= 1/2 (at most two expected "
    "draws). Longer reject chains repeat the same loop body (the body keeps no state between iterations). Ed25519: "
    "exactly one request of 64 bytes, result = value mod L. Entropy discipline: on the real classes over the abstract "
    "group every path of constructor/start/finish/serialize/from_serialized is checked for the number of entropy "
    "requests (only start(), exactly one random_scalar call; restored instances never draw)."
)
TRUSTED = ["counting argument: x -> x mod 2^bits has fibres of equal size on [0, 256^n)",
           "the loop body of unbiased_randrange is memoryless (checked for the first D draws)"]
ASSUMPTIONS = ["width >= 1; entropy function returns exactly the requested number of bytes (os.urandom contract)"]


def jobs(tier):
    maxbits, D = (40, 3) if tier == "quick" else (136, 4)
    js = []
    step = 8
    for lo in range(1, maxbits + 1, step):
        js.append(("job_randrange", dict(_name="unbiased_randrange width bits %d..%d, <=%d draws" % (lo, min(maxbits, lo + step - 1), D),
                                         lo=lo, hi=min(maxbits, lo + step - 1), draws=D)))
    deep = 140 if tier == "quick" else 400
    js.append(("job_randrange_deep", dict(_name="unbiased_randrange: up to %d consecutive rejections (1-byte range)" % deep, draws=deep)))
    for g in ("I1024", "I2048", "I3072", "toy11", "toy257", "toy1019", "sp61"):
        js.append(("job_group_scalar", dict(_name="IntegerGroup.random_scalar %s, <=%d draws" % (g, D), gname=g, draws=D)))
    js.append(("job_ed_scalar", dict(_name="ed25519 random_scalar")))
    for cls in "ABS":
        js.append(("job_discipline", dict(_name="entropy discipline %s" % cls, cls=cls)))
    return js


def _draw_claims(J, r, ent, bits, nbytes, width_t, start_t, result, cex, oracle="randrange"):
    calls = ent.calls
    J.claim(r, "each draw requests exactly ceil(bits/8) bytes [bits=%d]" % bits,
            all(n == nbytes for n, _ in calls) and nbytes == (bits + 7) // 8, cex=cex, oracle=oracle)
    cands = [b.value() % (2 ** bits) for _, b in calls]
    J.claim(r, "earlier draws were rejected because candidate >= width [%d draws]" % len(calls),
            z3.And([c >= width_t for c in cands[:-1]]) if len(cands) > 1 else True, cex=cex, oracle=oracle)
    J.claim(r, "accepted candidate = last draw mod 2^bits, and < width", cands[-1] < width_t, cex=cex, oracle=oracle)
    J.claim(r, "result = start + candidate", T(result) == start_t + cands[-1], cex=cex, oracle=oracle)
    J.claim(r, "start <= result < stop", z3.And(T(result) >= start_t, T(result) < start_t + width_t), cex=cex, oracle=oracle)


def job_randrange(J, lo, hi, draws):
    U = loader.MODS["util"]
    Flags.bitlen_bound = hi
    J.bounds.update(width_bits=[lo, hi], max_draws=draws, start="any integer")

    def h(ctx):
        start = SymInt(ctx.fresh("start"))
        width = SymInt(ctx.fresh("width", 2 ** (lo - 1) if lo > 1 else 1, 2 ** hi - 1))
        ent = Entropy("e", max_calls=draws)
        ctx.data["w"] = dict(start=start, width=width, ent=ent)
        mask, nb = U.generate_mask(width)
        ctx.data["w"].update(mask=mask, nb=nb)
        return U.unbiased_randrange(start, start + width, ent)
    for r in J.explore(h, max_paths=(hi - lo + 1) * (draws + 1) * 3 + 20):
        w = r.ctx.data["w"]
        start, width, ent = w["start"], w["width"], w["ent"]
        J.reach(r)
        cex = lambda m, w=w: dict(start=model_int(m, w["start"], 0), width=model_int(m, w["width"], 5),
                                  chunks=[b.model_bytes(m) for _, b in w["ent"].calls])
        if r.kind != "ret":
            J.claim(r, "unbiased_randrange does not raise (%s)" % type(r.value).__name__, False, cex=cex, oracle="randrange")
            continue
        mask, nb = w["mask"], w["nb"]
        if not (isinstance(mask, int) and isinstance(nb, int)):
            J.claim(r, "mask and byte count are concrete per bit-length path", False, cex=cex, oracle="randrange")
            continue
        space = (mask + 1) * 256 ** (nb - 1)
        bits = space.bit_length() - 1
        J.claim(r, "candidate space is a power of two 2^bits with width <= 2^bits <= 2*width [bits=%d]" % bits,
                z3.And(space == 2 ** bits, width.t <= space, 2 * width.t >= space), cex=cex, oracle="randrange")
        _draw_claims(J, r, ent, bits, nb, width.t, start.t, r.value, cex)
    J.stats["truncated"] += 0


def job_randrange_deep(J, draws):
    """long rejection chains: the k-th draw is treated exactly like the first (no try limit, no fallback, no state)"""
    U = loader.MODS["util"]
    J.bounds.update(width="3 (1 byte, 2 bits: a draw is rejected with probability 1/4)", max_draws=draws)
    width = 3

    def h(ctx):
        ent = Entropy("e", max_calls=draws)
        ctx.data["w"] = dict(ent=ent)
        return U.unbiased_randrange(0, width, ent)
    from symx.core import Ctx as _C
    old = _C.MAX_DEPTH
    _C.MAX_DEPTH = 20 * draws + 100
    try:
        res = J.explore(h, max_paths=draws + 5)
    finally:
        _C.MAX_DEPTH = old
    for r in res:
        ent = r.ctx.data["w"]["ent"]
        cex = lambda m, ent=ent: dict(start=0, width=width, chunks=[b.model_bytes(m) for _, b in ent.calls])
        if r.kind != "ret":
            J.claim(r, "unbiased_randrange does not raise after %d draws (%s)" % (len(ent.calls), type(r.value).__name__), False,
                    cex=cex, oracle="randrange", sample=False)
            continue
        _draw_claims(J, r, ent, 2, 1, z3.IntVal(width), z3.IntVal(0), r.value, cex)


def job_group_scalar(J, gname, draws):
    G = loader.MODS["groups"]
    if hasattr(G, gname):
        g = getattr(G, gname)
    else:
        from checks.realtier import custom_world
        g = custom_world(gname)[0]
    q = g.q
    bits, nb = q.bit_length(), (q.bit_length() + 7) // 8
    J.bounds.update(group=gname, q_bits=bits, max_draws=draws)

    def h(ctx):
        ent = Entropy("e", max_calls=draws)
        ctx.data["w"] = dict(ent=ent)
        return g.random_scalar(ent)
    for r in J.explore(h, fallback=("group_scalar", dict(group=gname, chunks=[]))):
        ent = r.ctx.data["w"]["ent"]
        J.reach(r)
        cex = lambda m, ent=ent: dict(group=gname, chunks=[b.model_bytes(m) for _, b in ent.calls])
        if r.kind != "ret":
            J.claim(r, "random_scalar does not raise (%s)" % type(r.value).__name__, False, cex=cex, oracle="group_scalar")
            continue
        _draw_claims(J, r, ent, bits, nb, z3.IntVal(q), z3.IntVal(0), r.value, cex, oracle="group_scalar")


def job_ed_scalar(J):
    E = loader.MODS["ed25519_basic"]
    EG = loader.MODS["ed25519_group"]
    J.bounds.update(group="Ed25519")

    for fn_name, fn in (("ed25519_basic.random_scalar", E.random_scalar), ("Ed25519Group.random_scalar", EG.Ed25519Group.random_scalar)):
        def h(ctx, fn=fn):
            ent = Entropy("e", max_calls=4)
            ctx.data["w"] = dict(ent=ent)
            return fn(ent)
        for r in J.explore(h):
            ent = r.ctx.data["w"]["ent"]
            J.reach(r)
            cex = lambda m, ent=ent: dict(chunks=[b.model_bytes(m) for _, b in ent.calls])
            if r.kind != "ret":
                J.claim(r, "%s does not raise" % fn_name, False, cex=cex, oracle="ed_scalar")
                continue
            J.claim(r, "%s requests 64 bytes exactly once" % fn_name, [n for n, _ in ent.calls] == [64], cex=cex, oracle="ed_scalar")
            if len(ent.calls) == 1:
                J.claim(r, "%s = (512 fresh bits as big-endian integer) mod L" % fn_name,
                        T(r.value) == ent.calls[0][1].value() % E.L, cex=cex, oracle="ed_scalar")


def job_discipline(J, cls):
    q = 11
    J.bounds.update(cls=cls, q="11 (abstract group)")

    def h(ctx):
        setup_hash_axioms(ctx)
        params = abstract_params(q)
        g = params.group
        W = g.element_size_bytes
        pw, idA, idB = sym_inputs((1, 1, 1))
        ent = Entropy("ent")
        log = []
        a = new_instance(cls, params, pw, idA, idB, ent)
        log.append(("constructor", len(ent.calls), len(g.entropy_requests)))
        a.start()
        log.append(("start", len(ent.calls), len(g.entropy_requests)))
        blob = a.serialize()
        log.append(("serialize", len(ent.calls), len(g.entropy_requests)))
        b = klass(cls).from_serialized(blob, params=params)
        log.append(("from_serialized", len(ent.calls), len(g.entropy_requests)))
        unused = outcome(b.entropy_f, 1)
        msg = SymBytes.fresh("side", 1) + SymBytes.fresh_chunk("body", W)
        oa = outcome(a.finish, msg)
        ob = outcome(b.finish, msg)
        log.append(("finish", len(ent.calls), len(g.entropy_requests)))
        ctx.data["w"] = dict(log=log, unused=unused, a=a, ent=ent, b=b)
        return tuple(log)
    for r in J.explore(h):
        J.reach(r)
        cex = lambda m: dict(cls=cls)
        if r.kind != "ret":
            J.claim(r, "session runs (%s)" % type(r.value).__name__, False, cex=cex, oracle="discipline")
            continue
        w = r.ctx.data["w"]
        log = dict((k, (a, b)) for k, a, b in w["log"])
        J.claim(r, "os.urandom is never called when an entropy function is supplied (even a falsy callable object)",
                len(r.ctx.table("urandom")) == 0, cex=cex, oracle="discipline")
        J.claim(r, "constructor draws no entropy", log["constructor"] == (0, 0), cex=cex, oracle="discipline")
        J.claim(r, "start() draws exactly once, through group.random_scalar", log["start"] == (1, 1), cex=cex, oracle="discipline")
        J.claim(r, "serialize() draws none", log["serialize"] == (1, 1), cex=cex, oracle="discipline")
        J.claim(r, "from_serialized() draws none", log["from_serialized"] == (1, 1), cex=cex, oracle="discipline")
        J.claim(r, "finish() draws none (original and restored)", log["finish"] == (1, 1), cex=cex, oracle="discipline")
        J.claim(r, "a restored instance has no usable entropy source", w["unused"][0] == "exc", cex=cex, oracle="discipline")
        J.claim(r, "the secret scalar is the value random_scalar derived from the entropy bytes",
                T(w["a"].xy_scalar) == w["a"].params.group.RS(w["ent"].calls[0][1].value()), cex=cex, oracle="discipline")


# ------------------------------------------------------------------ oracles
def ref_randrange(start, width, chunks):
    """reference rejection sampler over the given entropy chunks: returns (result or None if chunks exhausted)"""
    bits = width.bit_length()
    nb = (bits + 7) // 8
    for c in chunks:
        if len(c) != nb:
            return "badlen"
        cand = int.from_bytes(c, "big") % (1 << bits)
        if cand < width:
            return start + cand
    return None


def oracle_randrange(start, width, chunks):
    from spake2 import util
    from checks import common as C
    nb = (width.bit_length() + 7) // 8
    tests = [chunks]
    bits_ = width.bit_length()
    rej = (((1 << bits_) - 1) % (1 << (8 * nb))).to_bytes(nb, "big")
    if ((1 << bits_) - 1) >= width:
        for k in (10, 127, 128, 129, 300, 1000):         # long rejection chains, then an accepted draw
            tests.append([rej] * k + [(width - 1).to_bytes(nb, "big")])
    # pool: boundary candidates (width-1 accepted, width / 2^bits-1 rejected then 0)
    bits = width.bit_length()
    for v in (width - 1, width, (1 << bits) - 1, (1 << (8 * nb)) - 1, 0):
        tests.append([(v % (1 << (8 * nb))).to_bytes(nb, "big"), bytes(nb)])
        tests.append([(v % (1 << (8 * nb))).to_bytes(nb, "big"), b"\x00" + b"\x01" * (nb - 1), bytes(nb)])
    for ch in tests:
        ch = [(c + bytes(nb))[:nb] for c in ch] + [bytes(nb)]
        reqs = []
        it = iter(ch)

        def f(n):
            reqs.append(n)
            try:
                return next(it)
            except StopIteration:
                raise RuntimeError("too many draws")
        want = ref_randrange(start, width, ch)
        try:
            got = util.unbiased_randrange(start, start + width, f)
        except Exception as e:
            return (True, "unbiased_randrange(%d,%d) raised %r on %s" % (start, start + width, e, [c.hex() for c in ch]))
        if got != want or any(n != nb for n in reqs):
            return (True, "unbiased_randrange(%d,%d) on entropy %s = %r (requests %s), reference %r" % (
                start, start + width, [c.hex() for c in ch], got, reqs, want))
    return (False, "matches the reference sampler")


def oracle_group_scalar(group, chunks):
    from spake2 import groups
    from checks import common as C
    g = getattr(groups, group) if hasattr(groups, group) else C.toy_group(group)
    nb = (g.q.bit_length() + 7) // 8
    tests = [chunks] + [[(v % (1 << (8 * nb))).to_bytes(nb, "big")] for v in (g.q - 1, g.q, g.q + 1, (1 << (8 * nb)) - 1, 0)]
    if nb <= 2:         # small custom groups: every first draw
        tests += [[v.to_bytes(nb, "big")] for v in range(256 ** nb)]
    else:               # every value of the top byte, with low bytes of both extremes
        tests += [[bytes([t]) + fill * (nb - 1)] for t in range(256) for fill in (b"\x00", b"\xff")]
    for ch in tests:
        ch = [(c + bytes(nb))[:nb] for c in ch] + [bytes(nb)]
        it = iter(ch)
        reqs = []

        def f(n):
            reqs.append(n)
            return next(it)
        want = ref_randrange(0, g.q, ch)
        try:
            got = g.random_scalar(f)
        except Exception as e:
            return (True, "%s.random_scalar raised %r" % (group, e))
        if got != want or any(n != nb for n in reqs):
            return (True, "%s.random_scalar on %s = %r (requests %s), reference %r" % (group, [c.hex()[:20] for c in ch], got, reqs, want))
    return (False, "ok")


def oracle_ed_scalar(chunks):
    from spake2 import ed25519_basic as E
    from spake2.ed25519_group import Ed25519Group
    from checks import refimpl as R
    tests = [chunks[0] if chunks else bytes(64), b"\xff" * 64, bytes(63) + b"\x01", R.L.to_bytes(64, "big"), (R.L - 1).to_bytes(64, "big"),
             b"\x01" + bytes(63)]
    for fn in (E.random_scalar, Ed25519Group.random_scalar):
        for c in tests:
            c = (c + bytes(64))[:64]
            reqs = []

            def f(n):
                reqs.append(n)
                return (c + bytes(n))[:n]
            got = fn(f)
            if reqs != [64] or got != int.from_bytes(c, "big") % R.L:
                return (True, "random_scalar requests %s, result %r, expected %r" % (reqs, got, int.from_bytes(c, "big") % R.L))
    return (False, "ok")


def oracle_discipline(cls):
    from checks import common as C
    sp = C.S()
    K = {"A": sp.SPAKE2_A, "B": sp.SPAKE2_B, "S": sp.SPAKE2_Symmetric}[cls]
    import os
    for nm in ("Ed25519", "I1024", "toy11"):
        params = C.params_by_name(nm)
        calls = []

        class Pool(object):
            """a callable entropy source that is falsy (an empty buffered pool)"""
            def __len__(self):
                return 0

            def __call__(self, n):
                calls.append(n)
                return bytes(n - 1) + b"\x05"
        ent = Pool()
        real_urandom = os.urandom
        leaked = []
        os.urandom = lambda n: (leaked.append(n), real_urandom(n))[1]
        try:
            a = K(b"pw", params=params, entropy_f=ent)
            if calls:
                return (True, "constructor drew entropy on %s" % nm)
            own = a.start()
            n1 = len(calls)
            s = a.serialize()
            b = K.from_serialized(s, params=params)
            peer = K if cls == "S" else {"A": sp.SPAKE2_B, "B": sp.SPAKE2_A}[cls]
            for y_ in (7, 8, 9, 3):         # a peer element different from the own one (they can coincide on an 11-element group)
                pm = peer(b"pw", params=params, entropy_f=lambda n, y_=y_: bytes(n - 1) + bytes([y_])).start()
                if pm[1:] != own[1:]:
                    break
            a.finish(pm)
            b.finish(pm)
        finally:
            os.urandom = real_urandom
        expect = 1
        if len(calls) != n1 or leaked:
            return (True, "entropy drawn outside start() on %s: calls=%s os.urandom=%s" % (nm, calls, leaked))
        if nm == "Ed25519" and calls != [64]:
            return (True, "start() drew %s on Ed25519" % calls)
        if nm != "Ed25519" and len(calls) < 1:
            return (True, "start() drew nothing")
        try:
            b.entropy_f(1)
            return (True, "restored instance has a usable entropy function")
        except NotImplementedError:
            pass
        except Exception:
            pass
    return (False, "ok")


ORACLES = dict(randrange=oracle_randrange, group_scalar=oracle_group_scalar, ed_scalar=oracle_ed_scalar,
               discipline=oracle_discipline)
