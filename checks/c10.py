"""C10 -- the persisted state format is stable across library versions."""
import z3
from symx.core import Ctx, SymInt, SymBytes, SymBool, SymHex, T, B, model_int
from symx import loader, env
from symx.absgroup import AbsGroup
from symx.proto import (Entropy, setup_hash_axioms, outcome, okind, orders, new_instance, sym_inputs, klass, PEER,
                        SIDE_BYTE, abstract_params)
from checks.c08 import _dict_equal
from checks.c15 import job_int_scalar_codec, job_ed_scalar_codec          # scalar width/endianness on the real groups

PID = "C10"
TECHNIQUE = 'symbolic comparison of the real serialize() dictionary with an independent encoder of the released format, and of from_serialized(reference state) with the original session; real scalar codecs; JSON renderings as ground job'
LEVEL_NOTE = 'JSON text handling is the real json module (ground runs only)'
EXPLANATION = (
    "An independent encoder of the released state format is written in the harness from the property text: keys "
    "hashed_params, side, password, xy_scalar and idA+idB (or idS); every value lower-case hex of the raw bytes; the "
    "scalar in the group's fixed-width encoding; hashed_params = hex(SHA256(arbitrary_element('') || "
    "scalar(password_to_scalar('')) || M || N)) (symmetric: ... || S). With password, identities and the secret scalar "
    "symbolic the solver proves (a) the dictionary the real serialize() hands to json.dumps equals the reference "
    "dictionary (same key set, every value equal) and (b) the reference dictionary fed to the real from_serialized() "
    "yields an instance whose outbound message, and whose finish() outcome/key on an arbitrary symbolic inbound "
    "message, equal those of the original session. Scalar width and endianness are decided on the real groups' "
    "scalar_to_bytes/bytes_to_scalar (jobs shared with C15). Tolerance to key order and whitespace is the real "
    "json.loads: one concrete ground run per role and shipped set (labelled ground)."
)
TRUSTED = ["abstract group contract GC; SHA-256 uninterpreted", "json.dumps/loads as an opaque inverse pair; real json "
           "text handling only in the ground runs"]
ASSUMPTIONS = ["pw/id lengths from the stated sets"]


def jobs(tier):
    js = []
    qs = ["11", "L"] if tier == "quick" else ["11", "L", "q1024", "q2048", "q3072"]
    lens_all = [(1, 1, 2), (0, 0, 0)] if tier == "quick" else [(1, 1, 2), (0, 0, 0), (3, 2, 1), (65, 3, 0)]
    for qn in qs:
        for cls in "ABS":
            for lens in lens_all:
                js.append(("job_format", dict(_name="q=%s %s lens=%s" % (qn, cls, lens), qn=qn, cls=cls, lens=lens)))
    for g in ("I1024", "I2048", "I3072", "toy257", "toy1019", "sp61"):
        js.append(("job_int_scalar_codec", dict(_name="scalar codec %s" % g, gname=g)))
    js.append(("job_ed_scalar_codec", dict(_name="scalar codec Ed25519")))
    js.append(("job_json_ground", dict(_name="json key order / whitespace (ground)")))
    for g in ("toy11", "I1024", "Ed25519"):
        js.append(("job_matrix", dict(_name="session matrix on the plain package: %s (ground)" % g, gname=g)))
    return js


def reference_dict(cls, params, pw, idA, idB, x):
    """the released 0.9 format, written from its description (not from the code under test)"""
    g = params.group
    hexs = lambda b: SymHex(SymBytes.of(b))
    pieces = [g.arbitrary_element(b"").to_bytes(), g.scalar_to_bytes(g.password_to_scalar(b""))]
    pieces += [params.S.to_bytes()] if cls == "S" else [params.M.to_bytes(), params.N.to_bytes()]
    acc = SymBytes([])
    for p in pieces:
        acc = acc + SymBytes.of(p)
    d = {"hashed_params": SymHex(env.sha_term(acc)), "side": cls, "password": hexs(pw),
         "xy_scalar": hexs(g.scalar_to_bytes(x))}
    if cls == "S":
        d["idS"] = hexs(idA)
    else:
        d["idA"], d["idB"] = hexs(idA), hexs(idB)
    return d


def job_format(J, qn, cls, lens):
    q = orders()[qn]
    J.bounds.update(q=qn, cls=cls, lens=lens)

    def h(ctx):
        setup_hash_axioms(ctx)
        params = abstract_params(q, rejects_identity=(qn == "L"))
        W = params.group.element_size_bytes
        pw, idA, idB = sym_inputs(lens)
        a = new_instance(cls, params, pw, idA, idB, Entropy("ent"))
        own = SymBytes.of(a.start())
        w = dict(a=a, own=own, pw=pw, idA=idA, idB=idB)
        ctx.data["w"] = w
        w["real"] = a.serialize().obj
        w["ref"] = reference_dict(cls, params, pw, idA, idB, a.xy_scalar)
        o = outcome(klass(cls).from_serialized, env.JsonBlob(w["ref"]), params=params)
        w["o"] = o
        if o[0] != "ret":
            return (o[1],)
        b = o[1]
        w["reser"] = outcome(b.serialize)
        w["restart"] = outcome(b.start)
        msg = SymBytes.fresh("side", 1) + SymBytes.fresh_chunk("body", W)
        w["oa"], w["ob"] = outcome(a.finish, msg), outcome(b.finish, msg)
        return "instance", okind(w["oa"]), okind(w["ob"])

    for r in J.explore(h):
        w = r.ctx.data.get("w")
        J.reach(r)
        cex = lambda m, w=w: dict(cls=cls, pw=w["pw"].model_bytes(m), idA=w["idA"].model_bytes(m),
                                  idB=w["idB"].model_bytes(m), x=model_int(m, w["a"].xy_scalar)) if w and hasattr(w["a"], "xy_scalar") \
            else dict(cls=cls, pw=b"p", idA=b"a", idB=b"b", x=3)
        if r.kind != "ret":
            J.claim(r, "start/serialize do not raise (%s)" % type(r.value).__name__, False, cex=cex, oracle="format")
            continue
        real, ref = w["real"], w["ref"]
        J.claim(r, "serialize() emits exactly the released field set %s" % sorted(ref), set(real) == set(ref), cex=cex,
                oracle="format")
        J.claim(r, "every field equals the released encoding", _dict_equal(real, ref), cex=cex, oracle="format")
        J.claim(r, "from_serialized() accepts the reference-encoded state (%s)" % r.value[0], r.value[0] == "instance",
                cex=cex, oracle="format")
        if r.value[0] == "instance":
            b = w["o"][1]
            J.claim(r, "the resumed session is a started session: it serializes again to the same released-format state (%s)" % okind(w["reser"]),
                    w["reser"][0] == "ret" and _dict_equal(w["reser"][1].obj, ref) if w["reser"][0] == "ret" else False, cex=cex, oracle="format")
            J.claim(r, "the resumed session refuses start() with OnlyCallStartOnce (%s)" % okind(w["restart"]),
                    w["restart"][0] == "exc" and w["restart"][1] == "OnlyCallStartOnce", cex=cex, oracle="format")
            J.claim(r, "resumed session sends the described outbound message",
                    SymBytes.of(b.outbound_message).eq_term(w["own"][1:]), cex=cex, oracle="format")
            ka, kb = r.value[1], r.value[2]
            if ka != kb:
                J.claim(r, "resumed session ends like the described one (%s vs %s)" % (ka, kb), False, cex=cex, oracle="format")
            elif ka == "key":
                J.claim(r, "resumed session derives the described key", SymBytes.of(w["oa"][1]).eq_term(w["ob"][1]),
                        cex=cex, oracle="format")


def job_matrix(J, gname):
    from checks import matrix
    r = matrix.session_matrix((gname,))
    J.ground("every session of the matrix on %s (all roles on shared parameter objects, one process, both orders) emits and "
             "accepts the released format" % gname, r is None, r, oracle="format", args=dict(cls="A", pw=b"pw", idA=b"a", idB=b"b", x=5))


def job_json_ground(J):
    v, detail = oracle_format("A", b"pw", b"a", b"b", 5, ground_only=True)
    J.ground("reference-encoded JSON with shuffled keys and whitespace restores on every shipped set and role", not v,
             detail, oracle="format", args=dict(cls="A", pw=b"pw", idA=b"a", idB=b"b", x=5))


# ------------------------------------------------------------------ oracle: concrete independent encoder
def concrete_reference(cls, params, pw, idA, idB, x):
    import hashlib, binascii
    from spake2 import groups as G, ed25519_group as EG, ed25519_basic as E
    g = params.group
    hx = lambda b: binascii.hexlify(b).decode("ascii")
    if isinstance(g, G.IntegerGroup):
        w = (g.q.bit_length() + 7) // 8
        sc = lambda i: i.to_bytes(w, "big")
    else:
        sc = lambda i: (i % E.L).to_bytes(32, "little")
    pieces = [g.arbitrary_element(b"").to_bytes(), sc(g.password_to_scalar(b""))]
    pieces += [params.S.to_bytes()] if cls == "S" else [params.M.to_bytes(), params.N.to_bytes()]
    d = {"hashed_params": hashlib.sha256(b"".join(pieces)).hexdigest(), "side": cls, "password": hx(pw), "xy_scalar": hx(sc(x))}
    if cls == "S":
        d["idS"] = hx(idA)
    else:
        d["idA"], d["idB"] = hx(idA), hx(idB)
    return d


def oracle_format(cls, pw, idA, idB, x, ground_only=False):
    import json
    from checks import common as C
    sp = C.S()
    K = {"A": sp.SPAKE2_A, "B": sp.SPAKE2_B, "S": sp.SPAKE2_Symmetric}
    for nm in ("Ed25519", "I1024", "I2048", "I3072", "toy11"):
        params = C.params_by_name(nm)
        q = C.group_order(params.group)
        for c in "ABS":
            def mk(cc, xx):
                e = C.entropy_for_scalar(params.group, xx)
                if cc == "S":
                    return K[cc](pw, idSymmetric=idA, params=params, entropy_f=e)
                return K[cc](pw, idA=idA, idB=idB, params=params, entropy_f=e)
            for xx in sorted({x % q, 0, 1, q - 1}):
                a = mk(c, xx)
                own = a.start()
                ref = concrete_reference(c, params, pw, idA, idB, xx)
                try:
                    real = json.loads(a.serialize().decode("ascii"))
                except Exception as e:
                    return (True, "serialize output not ASCII JSON on %s: %r" % (nm, e))
                if real != ref:
                    return (True, "serialize() differs from the released format on %s class %s: %r vs reference %r" % (nm, c, real, ref))
                body = ",".join('"%s":"%s"' % (k, ref[k]) for k in sorted(ref))
                renderings = ["{\n  " + " ,\n\t".join('"%s" : "%s"' % (k, ref[k]) for k in sorted(ref, reverse=True)) + "\n}  ",
                              "{" + body + "}", "\n{" + body + "}\n", "  \t{ " + body.replace(",", " , ") + " }",
                              json.dumps(ref, indent=4), json.dumps(ref, sort_keys=True, separators=(",", ":")), "\r\n" + json.dumps(ref) + "\r\n"]
                for txt in renderings:
                    try:
                        b = K[c].from_serialized(txt.encode("ascii"), params=params)
                    except Exception as e:
                        return (True, "released-format state in the rendering %r... refused on %s class %s: %r" % (txt[:12], nm, c, e))
                if b.outbound_message != own[1:]:
                    return (True, "resumed session sends another message on %s class %s" % (nm, c))
                try:
                    again = json.loads(b.serialize().decode("ascii"))
                except Exception as e:
                    return (True, "a session resumed from released-format state cannot be persisted again on %s class %s: %r" % (nm, c, e))
                if again != ref:
                    return (True, "a resumed session serializes to different state on %s class %s" % (nm, c))
                try:
                    b.start()
                    return (True, "a resumed session accepts start() on %s class %s" % (nm, c))
                except sp.OnlyCallStartOnce:
                    pass
                except Exception as e:
                    return (True, "a resumed session's start() raises %s instead of OnlyCallStartOnce on %s class %s" % (type(e).__name__, nm, c))
                peer = mk(PEER[c], (xx + 1) % q).start()
                oa, ob = C.finish_outcome(a, peer), C.finish_outcome(b, peer)
                if oa != ob:
                    return (True, "resumed session finishes differently on %s class %s x=%d" % (nm, c, xx))
    from checks import matrix
    r = matrix.session_matrix()
    if r:
        return (True, r)
    return (False, "format as released")


from checks.c15 import ORACLES as _O15
ORACLES = dict(_O15, format=oracle_format)
