"""C04 -- the outbound message hides the password (uniform, password-independent)."""
import z3
from symx.core import Ctx, SymInt, SymBytes, SymBool, T, B, PathAbort, model_int
from symx import loader, env
from symx.absgroup import AbsGroup, norm
from symx.proto import (Entropy, setup_hash_axioms, outcome, okind, orders, new_instance, sym_inputs, abstract_params,
                        klass, PEER, SIDE_BYTE, msg_log)

PID = "C04"
TECHNIQUE = 'symbolic execution of start(): z3 proves message log = x + w*mu, x independent of password/identities, shift map bijective (LIA); sampling obligations of C11; complete enumeration on toy groups as ground job'
LEVEL_NOTE = 'uniformity is decided as its algebraic core, nothing is sampled statistically; GC contract; M, N, S subgroup members (C14)'
EXPLANATION = (
    "The distributional statement is decided as its algebraic core. (1) The real start() of the three classes runs over "
    "the abstract prime-order group with symbolic password, identities and entropy: the solver proves that the "
    "discrete log of the sent element is x + w*mu with x = random_scalar(entropy) (a term that contains neither the "
    "password nor an identity symbol), w = password_to_scalar(pw), mu the log of the role's blinding element; that two "
    "sessions which differ only in identities send the same message; and that two sessions which differ only in the "
    "password draw the same x. (2) For every integer c the map x -> (x + c) mod q is injective and surjective on [0,q) "
    "(linear arithmetic, explicit preimage (t - c) mod q), for each shipped q, L and toy orders. (3) On the real "
    "IntegerGroup objects (exponent domain) and the real Ed25519 classes (abstract points) Base.scalarmult(x).add("
    "M.scalarmult(w)).to_bytes() is the encoding of the element with log x + w*mu. Together: for every password the "
    "message ranges over the whole subgroup exactly once as x ranges over [0,q). Uniformity of x itself is C11."
)
TRUSTED = ["abstract group contract GC (injective encoding of the order-q subgroup)", "M, N, S are subgroup members (C14)"]
ASSUMPTIONS = ["statistical testing of real output is outside: nothing is sampled"]


def jobs(tier):
    js = []
    qs = ["11", "L"] if tier == "quick" else ["11", "L", "q1024", "q2048", "q3072", "65537"]
    for qn in qs:
        for cls in "ABS":
            js.append(("job_message_form", dict(_name="q=%s %s message = x*G + w*blind" % (qn, cls), qn=qn, cls=cls)))
    for qn in ["11", "65537", "L", "q1024", "q2048", "q3072"]:
        js.append(("job_shift_bijection", dict(_name="x -> x + c mod q is a bijection (q=%s)" % qn, qn=qn)))
    js.append(("job_toy_ground", dict(_name="toy groups: every (password, scalar) enumerated on the real code (ground)")))
    # the scalar x itself must be uniform on [0,q): the sampling obligations of C11 are part of this property's mechanism
    for g in ("I1024", "I2048", "I3072", "toy257", "toy1019"):
        js.append(("job_group_scalar", dict(_name="uniform scalar: IntegerGroup.random_scalar %s, <=3 draws" % g, gname=g, draws=3)))
    js.append(("job_ed_scalar", dict(_name="uniform scalar: ed25519 random_scalar")))
    from checks import realtier
    js += realtier.jobs_for("C04", tier)
    return js


def job_message_form(J, qn, cls):
    q = orders()[qn]
    J.bounds.update(q=qn, cls=cls, lens=dict(pw=2, ids=1))

    def h(ctx):
        setup_hash_axioms(ctx)
        params = abstract_params(q, rejects_identity=(qn == "L"))
        pw, idA, idB = sym_inputs((2, 1, 1))
        pw2 = SymBytes.fresh("pw2", 2)
        idA2, idB2 = SymBytes.fresh("idA2", 1), SymBytes.fresh("idB2", 1)
        ebytes = SymBytes.fresh_chunk("ent", params.group.scalar_size_bytes + 8)
        calls = []

        def ent(n):
            calls.append(n)
            if len(calls) > 12:
                raise PathAbort("entropy requested more than 12 times by three start() calls")
            return ebytes
        a = new_instance(cls, params, pw, idA, idB, ent)
        b = new_instance(cls, params, pw, idA2, idB2, ent)       # other identities
        c = new_instance(cls, params, pw2, idA, idB, ent)        # other password
        ma, mb, mc = a.start(), b.start(), c.start()
        ctx.data["w"] = dict(a=a, b=b, c=c, ma=ma, mb=mb, mc=mc, pw=pw, idA=idA, idB=idB, ebytes=ebytes, params=params, calls=calls)
        return True
    for r in J.explore(h):
        w = r.ctx.data.get("w")
        J.reach(r)
        cex = lambda m, w=w: dict(cls=cls, pw=w["pw"].model_bytes(m) if w else b"pw")
        if r.kind != "ret":
            J.claim(r, "start() does not raise (%s)" % type(r.value).__name__, False, cex=cex, oracle="hiding")
            continue
        a, b, c = w["a"], w["b"], w["c"]
        g = w["params"].group
        mu = a.my_blinding().log
        x = T(a.xy_scalar)
        J.claim(r, "sent element has log x + w*mu  (message - w*M == x*G)", msg_log(a) - T(a.pw_scalar) * mu == x,
                cex=cex, oracle="hiding")
        J.claim(r, "the message is side || enc(that element)",
                SymBytes.of(w["ma"]).eq_term(SymBytes([SIDE_BYTE[cls]]) + g._encode(type(g.Base)(g, norm(x + T(a.pw_scalar) * mu)))),
                cex=cex, oracle="hiding")
        J.claim(r, "x = random_scalar(entropy bytes): a function of the entropy only", x == g.RS(w["ebytes"].value()),
                cex=cex, oracle="hiding")
        J.claim(r, "each start() draws entropy exactly once (no conditional re-draw)", len(w["calls"]) == 3, cex=cex, oracle="hiding")
        names = set()

        def walk(e):
            if z3.is_const(e) and e.decl().kind() == z3.Z3_OP_UNINTERPRETED:
                names.add(e.decl().name())
            for ch in e.children():
                walk(ch)
        walk(x)
        J.claim(r, "x mentions no password or identity symbol (free-variable check: %s)" % sorted(names),
                not any(n.startswith(("pw", "id")) for n in names), cex=cex, oracle="hiding")
        J.claim(r, "identities never influence the message", SymBytes.of(w["ma"]).eq_term(w["mb"]), cex=cex, oracle="hiding")
        J.claim(r, "the password does not influence the secret scalar", x == T(c.xy_scalar), cex=cex, oracle="hiding")
        J.claim(r, "the password influences the message only through the blinding term",
                msg_log(c) - T(c.pw_scalar) * mu == msg_log(a) - T(a.pw_scalar) * mu, cex=cex, oracle="hiding")


def job_shift_bijection(J, qn):
    q = orders()[qn]
    ctx = Ctx()
    Ctx.cur = ctx
    c, x1, x2, t = [z3.Int(n) for n in ("c", "x1", "x2", "t")]
    ctx.side += [x1 >= 0, x1 < q, x2 >= 0, x2 < q, t >= 0, t < q]
    kw = dict(cex=lambda m: dict(cls="A", pw=b"pw"), oracle="hiding")
    J.claim(ctx, "x -> (x + c) mod q is injective on [0,q) for every integer c",
            z3.Implies((x1 + c) % q == (x2 + c) % q, x1 == x2), **kw)
    pre = (t - c) % q
    J.claim(ctx, "... and surjective: (t - c) mod q is a preimage of t in [0,q)",
            z3.And(pre >= 0, pre < q, (pre + c) % q == t), **kw)


def job_toy_ground(J):
    v, d = oracle_hiding("A", b"pw", ground=True)
    J.ground("toy groups (23,11,2), (2039,1019,4): for every password class and role the messages over all scalars are "
             "exactly the subgroup, each element once; identities do not matter", not v, d, oracle="hiding",
             args=dict(cls="A", pw=b"pw"))


# ------------------------------------------------------------------ oracle
def oracle_hiding(cls, pw, ground=False):
    from checks import common as C, refimpl as R
    from checks import published_constants as PC
    sp = C.S()
    K = {"A": sp.SPAKE2_A, "B": sp.SPAKE2_B, "S": sp.SPAKE2_Symmetric}
    # complete enumeration on toy groups
    for toy in ("toy11", "toy1019"):
        params = C.params_by_name(toy)
        p_, q_, g_ = C.TOYS[toy]
        subgroup = {pow(g_, k, p_) for k in range(q_)}
        pws = [pw, b"", b"\x00", b"a" * 65]
        zero = C.find_password_with_scalar(params.group, 0, length=2)
        if zero:
            pws.append(zero)
        for c in "ABS":
            for p in pws:
                seen = {}
                for x in range(q_):
                    def mk(ia, ib):
                        e = C.entropy_for_scalar(params.group, x)
                        return K[c](p, idSymmetric=ia, params=params, entropy_f=e) if c == "S" else K[c](p, idA=ia, idB=ib, params=params, entropy_f=e)
                    m1, m2 = mk(b"", b"").start(), mk(b"alice", b"bob").start()
                    if m1 != m2:
                        return (True, "identities influence the message on %s class %s" % (toy, c))
                    el = int.from_bytes(m1[1:], "big")
                    if el in seen:
                        return (True, "%s class %s pw=%r: scalars %d and %d give the same message" % (toy, c, p, seen[el], x))
                    seen[el] = x
                if set(seen) != subgroup:
                    return (True, "%s class %s pw=%r: messages over all scalars do not cover the subgroup (%d of %d)" % (toy, c, p, len(set(seen) & subgroup), q_))
    # shipped groups: message - w*M == x*G for pool scalars, against independent arithmetic
    for nm in ("Ed25519", "I1024", "I2048", "I3072"):
        params = C.params_by_name(nm)
        rg = R.RefEdGroup() if nm == "Ed25519" else R.RefIntGroup(*[PC.INT_GROUPS[nm][k] for k in "pqg"])
        q = rg.q
        for c in "ABS":
            for x in (0, 1, 2, q - 1, q // 2, 12345678901234567890 % q):
                for p in (pw, b"other"):
                    e = C.entropy_for_scalar(params.group, x)
                    inst = K[c](p, idSymmetric=b"i", params=params, entropy_f=e) if c == "S" else K[c](p, idA=b"i", idB=b"j", params=params, entropy_f=e)
                    msg = inst.start()
                    if inst.xy_scalar != x:
                        return (True, "secret scalar is not the entropy-derived one on %s (pw=%r): %r vs %d" % (nm, p, inst.xy_scalar, x))
                    if msg != R.spake2_message(rg, c, p, x):
                        return (True, "message != enc(x*G + w*blind) on %s class %s x=%d" % (nm, c, x))
    return (False, "messages form a bijection with the scalars")


ORACLES = dict(hiding=oracle_hiding)
from checks.realtier import rt_conform, ORACLES as _RT      # noqa: E402
ORACLES.update(_RT)
from checks.c11 import job_group_scalar, job_ed_scalar, ORACLES as _O11      # noqa: E402
ORACLES.update({k: v for k, v in _O11.items() if k not in ORACLES})
