"""Concrete 'session matrix': many sessions run in ONE process, varying one dimension at a time (parameter seeds, role,
password, identity split, restore) while everything else -- including the entropy bytes -- stays equal, each compared
with the by-the-book reference (checks/refimpl.py).  State that leaks between sessions (a cache keyed too coarsely on a
shared object, class or module) shows up as a session that disagrees with the reference.  Used by replay oracles and as
ground jobs; no solver here."""
import hashlib, json, binascii


def _ref_group(name):
    from checks import refimpl as R, published_constants as PC
    if name == "Ed25519":
        return R.RefEdGroup()
    from checks import common as C
    if name in C.TOYS:
        return R.RefIntGroup(*C.TOYS[name])
    d = PC.INT_GROUPS[name]
    return R.RefIntGroup(d["p"], d["q"], d["g"])


def _real_group(name):
    from checks import common as C
    return C.params_by_name(name).group


class _Memo:
    """memoises the reference group's derivations (they are pure functions)"""
    def __init__(self, rg):
        self._rg, self._c = rg, {}
        self.q = rg.q

    def __getattr__(self, name):
        f = getattr(self._rg, name)
        if name in ("arbitrary", "p2s"):
            def g(a):
                k = (name, a)
                if k not in self._c:
                    self._c[k] = f(a)
                return self._c[k]
            return g
        return f


SEEDS = [(b"M", b"N", b"symmetric"), (b"M2", b"N", b"symmetric"), (b"M", b"N2", b"symmetric2"),
         (b"ab", b"c", b"s"), (b"a", b"bc", b"s"), (b"", b"N", b""), (b"N", b"M", b"symmetric")]
IDS = [(b"ab", b"c"), (b"a", b"bc"), (b"", b""), (b"abc", b""), (b"c", b"ab")]
PWS = [b"pw", b"", b"pW", b"p\x00"]


def ref_state(rg, side, seeds, pw, idA, idB, x):
    hx = lambda b: binascii.hexlify(b).decode("ascii")
    pieces = [rg.enc(rg.arbitrary(b"")), rg.scalar_bytes(rg.p2s(b""))]
    pieces += [rg.enc(rg.arbitrary(seeds[2]))] if side == "S" else [rg.enc(rg.arbitrary(seeds[0])), rg.enc(rg.arbitrary(seeds[1]))]
    d = {"hashed_params": hashlib.sha256(b"".join(pieces)).hexdigest(), "side": side, "password": hx(pw),
         "xy_scalar": hx(rg.scalar_bytes(x))}
    if side == "S":
        d["idS"] = hx(idA)
    else:
        d["idA"], d["idB"] = hx(idA), hx(idB)
    return d


def session_matrix(groups=("Ed25519", "I1024", "toy11"), quick=True):
    """returns None if every session agrees with the reference, else a description of the first disagreement"""
    from checks import common as C, refimpl as R
    from spake2.params import _Params
    sp = C.S()
    K = {"A": sp.SPAKE2_A, "B": sp.SPAKE2_B, "S": sp.SPAKE2_Symmetric}
    PEER = {"A": "B", "B": "A", "S": "S"}
    for gname in groups:
        g, rg = _real_group(gname), _Memo(_ref_group(gname))
        q = rg.q
        pobj = {}
        for sd in SEEDS:
            pobj[sd] = C.params_by_name(gname) if sd == SEEDS[0] else _Params(g, M=sd[0], N=sd[1], S=sd[2])
        plan = []
        for sd in SEEDS:
            for side in "ABS":
                for pw in (PWS if not quick or gname != "Ed25519" else PWS[:2]):
                    for ids in ((IDS if sd == SEEDS[0] else IDS[:2]) if gname != "Ed25519" else IDS[:2]):
                        plan.append((sd, side, pw, ids))
        big = gname in C.TOYS and g.element_size_bytes > 192
        if big:       # very wide custom groups: a reduced plan (arithmetic cost), same dimensions
            plan = [(sd, side, pw, ids) for (sd, side, pw, ids) in plan if sd in SEEDS[:2] and pw in PWS[:2] and ids == IDS[0]]
        if gname != "Ed25519":
            # a session whose first entropy draw is rejected (candidate >= q), then sessions with ordinary entropy
            nb = (q.bit_length() + 7) // 8
            calls = []

            def rej_entropy(n):
                # like os.urandom: exactly n bytes per request. 1st request: all ones (rejected); afterwards the bytes
                # of scalar 7 followed by filler (matters only to code that asks for more than one draw at a time)
                calls.append(n)
                if len(calls) == 1:
                    return b"\xff" * n
                return ((7 % q).to_bytes(nb, "big") + bytes(range(1, 256)) * 8)[:n]
            rej = K["A"](b"pw", params=pobj[SEEDS[0]], entropy_f=rej_entropy)
            try:
                m0 = rej.start()
            except Exception as ex:
                return "start() raised %r for an entropy stream whose first draw must be rejected (%s)" % (ex, gname)
            if m0 != R.spake2_message(rg, "A", b"pw", 7 % q, SEEDS[0]):
                return "after a rejected first draw start() on %s does not use the second draw as its scalar" % gname
        # a fresh default parameter set built after custom ones must still be the released one
        fresh = _Params(g)
        for nm_, sd_ in (("M", b"M"), ("N", b"N"), ("S", b"symmetric")):
            if getattr(fresh, nm_).to_bytes() != rg.enc(rg.arbitrary(sd_)):
                return "a default _Params(%s) built after custom parameter sets has %s != arbitrary_element(%r)" % (gname, nm_, sd_)
        # edge scalars, each session run twice in a row (a session must not spoil shared objects for its successor)
        edge = [(SEEDS[0], side, b"pw", IDS[0], xs, ys) for side in "ABS" for (xs, ys) in ((0, 5 % q), (3 % q, 0), (0, 0), (q - 1, 1))]
        edge = [e for e in edge for _ in ((0,) if big else (0, 1))]
        full = [(sd, side, pw, ids, 3 % q, 5 % q) for (sd, side, pw, ids) in plan]
        for order in (edge + full, list(reversed(full)) + edge):
            for (sd, side, pw, ids, x, y) in order:
                params = pobj[sd]
                # between sessions: a call that fails part-way (wrong argument type); it must leave nothing behind
                try:
                    bad = K["S"](b"pw", idSymmetric=u"text-id", params=params, entropy_f=C.entropy_for_scalar(g, 2))
                    bm = bad.start()
                    bad.finish(bm[:1] + R.spake2_message(rg, "S", b"pw", 4 % q, sd)[1:])
                except Exception:
                    pass
                what = "%s seeds=%r side=%s pw=%r ids=%r" % (gname, sd, side, pw, ids)
                e = C.entropy_for_scalar(g, x)
                inst = K[side](pw, idSymmetric=ids[0], params=params, entropy_f=e) if side == "S" else \
                    K[side](pw, idA=ids[0], idB=ids[1], params=params, entropy_f=e)
                try:
                    msg = inst.start()
                except Exception as ex:
                    return "start() raised %r in session %s" % (ex, what)
                want = R.spake2_message(rg, side, pw, x, sd)
                if msg != want:
                    return "start() message differs from the published definition in session %s (run after other sessions in the same process)" % what
                try:
                    st = json.loads(inst.serialize().decode("ascii"))
                except Exception as ex:
                    return "serialize() failed (%r) in session %s" % (ex, what)
                ref = ref_state(rg, side, sd, pw, ids[0], ids[1], x)
                if st != ref:
                    bad = [k for k in ref if st.get(k) != ref[k]] + [k for k in st if k not in ref]
                    return "serialize() differs from the released format in fields %s in session %s" % (bad, what)
                txt = json.dumps(ref).encode("ascii")
                try:
                    rest = K[side].from_serialized(txt, params=params)
                except Exception as ex:
                    return "from_serialized() refused released-format state (%s) in session %s" % (type(ex).__name__, what)
                inbound = R.spake2_message(rg, PEER[side], pw, y, sd)
                wantk = R.spake2_key(rg, side, pw, ids[0], ids[1], x, inbound, sd)
                for nm, obj in (("original", inst), ("restored", rest)):
                    o = C.finish_outcome(obj, inbound)
                    if wantk is None or inbound[1:] == msg[1:]:
                        if o[0] == "key":
                            return "finish() returned a key for a refused/reflected element in session %s" % what
                        continue
                    if o[0] != "key" or o[1] != wantk:
                        return "finish() of the %s instance differs from the published definition in session %s (%s)" % (
                            nm, what, o[1] if o[0] == "exc" else "key " + o[1].hex()[:16])
    return None


def finalize_matrix():
    """transcript functions called many times in one process with colliding/related arguments"""
    from spake2 import spake2 as S
    h = lambda b: hashlib.sha256(b).digest()
    args = []
    for (ia, ib) in [(b"ab", b"c"), (b"a", b"bc"), (b"", b"abc"), (b"abc", b""), (b"c", b"ab"), (b"ab", b"c")]:
        for pw in (b"pw", b"pW"):
            for (X, Y, K) in [(b"XXXX", b"YYYY", b"KKKK"), (b"YYYY", b"XXXX", b"KKKK"), (b"XXXX", b"YYYY", b"KKKL")]:
                args.append((ia, ib, X, Y, K, pw))
    seen = {}
    for order in (args, list(reversed(args))):
        for a in order:
            # a call that fails part-way (text instead of bytes) must leave nothing behind for the next call
            for bad in ((u"text",) + tuple(a[1:]), tuple(a[:1]) + (u"text",) + tuple(a[2:]), tuple(a[:2]) + (None,) + tuple(a[3:])):
                try:
                    S.finalize_SPAKE2(*bad)
                except Exception:
                    pass
            try:
                S.finalize_SPAKE2_symmetric(u"text", a[2], a[3], a[4], a[5])
            except Exception:
                pass
            got = S.finalize_SPAKE2(*a)
            want = h(h(a[5]) + h(a[0]) + h(a[1]) + a[2] + a[3] + a[4])
            if got != want:
                return "finalize_SPAKE2%r differs from SHA256(SHA256(pw)||SHA256(idA)||SHA256(idB)||X||Y||K) when called after other calls in the same process" % (a,)
            if got in seen and seen[got] != a:
                return "finalize_SPAKE2 gives the same key for %r and %r" % (a, seen[got])
            seen[got] = a
            ids, m1, m2, kk, pw = a[0] + a[1], a[2], a[3], a[4], a[5]
            got = S.finalize_SPAKE2_symmetric(ids[:1], m1, m2, kk, pw)
            lo, hi = sorted([m1, m2])
            if got != h(h(pw) + h(ids[:1]) + lo + hi + kk):
                return "finalize_SPAKE2_symmetric(%r, %r, %r, %r, %r) differs from the definition" % (ids[:1], m1, m2, kk, pw)
    # messages of different lengths, prefixes of one another, leading zero bytes: bytewise order, and symmetry
    for (m1, m2) in [(b"\x01\x00", b"\x02"), (b"ab", b"b"), (b"", b"\x00"), (b"\x00\x01", b"\x01"), (b"abc", b"ab"),
                     (b"\xff", b"\x00\xff\xff"), (b"\x80", b"\x7f\xff"), (b"a", b"a")]:
        lo, hi = sorted([m1, m2])
        want = h(h(b"pw") + h(b"i") + lo + hi + b"K")
        for (a_, b_) in ((m1, m2), (m2, m1)):
            got = S.finalize_SPAKE2_symmetric(b"i", a_, b_, b"K", b"pw")
            if got != want:
                return "finalize_SPAKE2_symmetric(b'i', %r, %r, b'K', b'pw') is not SHA256(SHA256(pw)||SHA256(idS)||min||max||K) with bytewise order" % (a_, b_)
    return None
