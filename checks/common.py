"""concrete helpers shared by the replay oracles (plain `spake2` package only; no solver here)"""
import hashlib, itertools


def S():
    from spake2 import spake2
    return spake2


def shipped_params():
    from spake2.parameters.all import ParamsEd25519, Params1024, Params2048, Params3072
    return {"Ed25519": ParamsEd25519, "I1024": Params1024, "I2048": Params2048, "I3072": Params3072}


# custom groups: p and q deliberately NOT a whole number of bytes wide (the shipped ones all are)
TOYS = {"toy11": (23, 11, 2), "toy1019": (2039, 1019, 4), "toy257": (1543, 257, 64),
        "sp61": (2305843009213699919, 1152921504606849959, 4)}


def toy_group(name="toy11", g=None):
    from spake2.groups import IntegerGroup
    p, q, gg = TOYS[name]
    return IntegerGroup(p=p, q=q, g=gg if g is None else g)


_toy_cache = {}


def toy_params(name="toy11", M=b"M", N=b"N", S_=b"symmetric", g=None):
    from spake2.params import _Params
    key = (name, M, N, S_, g)
    if key not in _toy_cache:
        _toy_cache[key] = _Params(toy_group(name, g), M=M, N=N, S=S_)
    return _toy_cache[key]


def params_by_name(name):
    sp = shipped_params()
    if name in sp:
        return sp[name]
    return toy_params(name)


def group_order(g):
    return g.order() if hasattr(g, "order") else g.q


def entropy_for_scalar(group, x):
    """an entropy function that makes group.random_scalar return x on the pinned sampling algorithms:
    big-endian x in whatever size is requested (Ed25519: 64 bytes reduced mod L; integer groups: masked, accepted
    because x < q)."""
    calls = []

    def f(n):
        # first request: the bytes that yield x; any further request (re-draw) yields x+1, x+2, ... so that code which
        # draws again cannot livelock the oracle and its effect becomes visible
        v = (x + len(calls)) % (256 ** n)
        calls.append(n)
        return v.to_bytes(n, "big")
    f.calls = calls
    return f


def entropy_from_bytes(chunks):
    """replays recorded entropy chunks in order; afterwards zeros"""
    it = iter(chunks)

    def f(n):
        try:
            b = next(it)
        except StopIteration:
            b = b""
        return (b + bytes(n))[:n] if len(b) < n else b[:n]
    return f


def find_password_with_scalar(group, w, length=None, limit=200000):
    """search a password (of the given length if possible) whose password_to_scalar is w  (toy groups only)"""
    lens = [length] if length is not None else [1, 2, 3]
    for ln in lens:
        space = itertools.product(range(256), repeat=ln) if ln <= 2 else (
            tuple(hashlib.sha256(b"%d" % i).digest()[:ln]) for i in range(limit))
        for n, t in enumerate(space):
            if n > limit:
                break
            pw = bytes(t)
            if group.password_to_scalar(pw) == w:
                return pw
    return None


def find_seed_with_log(group, mu, limit=20000):
    """search a seed whose arbitrary_element equals Base*mu (toy groups only)"""
    target = group.Base.scalarmult(mu).to_bytes()
    for i in range(limit):
        seed = b"s%d" % i
        if group.arbitrary_element(seed).to_bytes() == target:
            return seed
    return None


def leading_zero_scalar(make_start, limit=4000):
    """search a secret scalar for which start() yields an element encoding beginning with 00 (integer groups)"""
    for x in range(1, limit):
        m = make_start(x)
        if m[1] == 0:
            return x, m
    return None, None


def fresh_import_order_check():
    """in a fresh interpreter: build custom parameter sets FIRST, import the shipped parameter modules afterwards, and
    print the encodings of their M, N, S (they must still be the released constants)"""
    import subprocess, sys, os, json
    code = (
        "import json\n"
        "from spake2.params import _Params\n"
        "from spake2 import groups\n"
        "from spake2.ed25519_group import Ed25519Group\n"
        "_Params(groups.I1024, N=b'M', S=b'my-app symmetric')\n"
        "_Params(groups.I2048, M=b'N')\n"
        "_Params(Ed25519Group, M=b'x', N=b'x', S=b'x')\n"
        "from spake2.parameters.i1024 import Params1024\n"
        "from spake2.parameters.i2048 import Params2048\n"
        "from spake2.parameters.i3072 import Params3072\n"
        "from spake2.parameters.ed25519 import ParamsEd25519\n"
        "fresh = _Params(groups.I1024)\n"
        "out = {}\n"
        "for nm, P in (('I1024', Params1024), ('I2048', Params2048), ('I3072', Params3072), ('Ed25519', ParamsEd25519), ('fresh I1024', fresh)):\n"
        "    out[nm] = [P.M.to_bytes().hex(), P.N.to_bytes().hex(), P.S.to_bytes().hex()]\n"
        "print(json.dumps(out))\n")
    p = subprocess.run([sys.executable, "-c", code], capture_output=True, text=True, env=dict(os.environ), timeout=300)
    try:
        return json.loads(p.stdout.strip().splitlines()[-1])
    except Exception:
        return {"error": (p.stderr or p.stdout)[-400:]}


def finish_outcome(inst, msg):
    try:
        return ("key", inst.finish(msg))
    except Exception as e:
        return ("exc", type(e).__name__)


def run_exchange(flavour, params, pw, idA, idB, x, y, ser=(False, False), pwB=None, idA_B=None, idB_B=None,
                 paramsB=None, deliver_to_A=None, deliver_to_B=None):
    """runs one real exchange with chosen secret scalars; returns dict(mA, mB, oA, oB)"""
    sp = S()
    pB = paramsB or params
    if flavour == "AB":
        a = sp.SPAKE2_A(pw, idA=idA, idB=idB, params=params, entropy_f=entropy_for_scalar(params.group, x))
        b = sp.SPAKE2_B(pw if pwB is None else pwB, idA=idA if idA_B is None else idA_B,
                        idB=idB if idB_B is None else idB_B, params=pB, entropy_f=entropy_for_scalar(pB.group, y))
        KA, KB = sp.SPAKE2_A, sp.SPAKE2_B
    else:
        a = sp.SPAKE2_Symmetric(pw, idSymmetric=idA, params=params, entropy_f=entropy_for_scalar(params.group, x))
        b = sp.SPAKE2_Symmetric(pw if pwB is None else pwB, idSymmetric=idA if idA_B is None else idA_B, params=pB,
                                entropy_f=entropy_for_scalar(pB.group, y))
        KA = KB = sp.SPAKE2_Symmetric
    mA, mB = a.start(), b.start()
    if ser[0]:
        a = KA.from_serialized(a.serialize(), params=params)
    if ser[1]:
        b = KB.from_serialized(b.serialize(), params=pB)
    oA = finish_outcome(a, mB if deliver_to_A is None else deliver_to_A)
    oB = finish_outcome(b, mA if deliver_to_B is None else deliver_to_B)
    return dict(mA=mA, mB=mB, oA=oA, oB=oB, a=a, b=b)
