"""concrete helpers shared by the replay oracles (plain `spake2` package only; no solver here)"""
import hashlib, itertools


def S():
    from spake2 import spake2
    return spake2


def shipped_params():
    from spake2.parameters.all import ParamsEd25519, Params1024, Params2048, Params3072
    return {"Ed25519": ParamsEd25519, "I1024": Params1024, "I2048": Params2048, "I3072": Params3072}


# custom groups: p and q deliberately NOT a whole number of bytes wide (the shipped ones all are)
TOYS = {"toy11": (23, 11, 2), "toy1019": (2039, 1019, 4), "toy257": (1543, 257, 64),
        "sp61": (2305843009213699919, 1152921504606849959, 4)}

# a custom group whose subgroup order is wider than 2048 bits (scalar_size_bytes = 257, element size 258): the shipped
# groups and the toys above all have scalars of at most 32 bytes.  q = first prime at or above a SHA-256 derived 2052-bit
# odd number, p = k*q + 1 the first such prime (k = 4740), g = 2^k mod p  (generated once with Miller-Rabin, checked by
# the constructor under test: pow(g, q, p) == 1)
_BIG_P = int(
    "cf00e742b4c5d047c7f22469723a9019ec21c927b929874fe756e99e8bd1bb4509ce39357129e5b952e7124adf0157592c05"
    "828a70804152123c7ded2edb21784285a78e6a7ff4ae2328193e1440dfcc3beb32a0d9411c3a540551701ccb99fa7efb0546"
    "0e85b4ba3248127f438cea26d92299dfe36d183d9b70747cbfead08d29e25bc22a0969e10e32787afe26bea33d80057c1608"
    "e3d5ff70ecc2fec5c2d1a5564c33a8124b06f7663d856ae3a0395d43634390f8ba65f9569690151534d86f18258542843e83"
    "780eb85b621db82dadbff34b40c08e3f0f8450eb0d236db253d88e4cae28e29dfb94a49a6c0691ee03a871a0f8b8d8853864"
    "7bb980b1d1b5c8bd", 16)
_BIG_Q = int(
    "b2e1060ede517feb1250eb6691cdef3ca36f811b3279de22ea0ab9e46338271e7e6d8195a94bbd3918c27dfc000128b30648"
    "988e190f8f1349df27e71926c87404c5969fcadb051fe029904dd72c2d9fd9e8683d3909627e03e81440e84683c31335cf69"
    "b084d29d029ea1973c5127aa51c70def0d8bdb0cd6af616b95a3cf3886b47b5cd2043efa370afe09ee6a8002ccccd18a1eb4"
    "f0f3af270983fe133c8c8c47fafd53aab432173ea434357b082fd79cf5a4757f70e5d661b931f9972f9c22a59bc7310dd236"
    "69e7fe9487c4ff12f309adbaa7dc2fbd8394419a822c02548943aab59fc975d6f04c997920a4ada163ba637ca07d2a93867f"
    "036f427d934cf", 16)
_BIG_G = int(
    "adb3167686f2f5fbcda849bd0728b4f05a2e743a39fb7dd161dcf3f9951f604e51f3038c18622a22b56ed661f937b17052ff"
    "6ca8ec1dad0203b72c4a30e39a8aad5a5fffb424fd8fe502178be752d0575a77434a46a76c9c7d78e5aafd3aff392bfeb24e"
    "a38888b7b0b55078a70d49f226a00135d2174addabf859590adf3062e9f7dc3df648da62b68e11b7d7fbf8f54a4174b08e07"
    "3723b90b8887224a17c9a70567ef97fe5c0e5e6bb84dc46f35d58784e79fcedd1d9f1bc2430ce5e699e709bf0a319660a400"
    "3e7306901164aa5359cd5e5a1591bb5c475e389d7024233c3b96e742229ac547a9daa9bdc22a2a8992793de30d15f9c963d5"
    "14e2ad262142d49d", 16)
TOYS["big2052"] = (_BIG_P, _BIG_Q, _BIG_G)


def toy_group(name="toy11", g=None):
    from spake2.groups import IntegerGroup
    p, q, gg = TOYS[name]
    return IntegerGroup(p=p, q=q, g=gg if g is None else g)


_toy_cache = {}


def toy_params(name="toy11", M=b"M", N=b"N", S_=b"symmetric", g=None):
    from spake2.params import _Params
    key = (name, M, N, S_, g)
    if key not in _toy_cache:
        _toy_cache[key] = _Params(toy_group(name, g), M=M, N=N, S=S_)
    return _toy_cache[key]


def params_by_name(name):
    sp = shipped_params()
    if name in sp:
        return sp[name]
    return toy_params(name)


def group_order(g):
    return g.order() if hasattr(g, "order") else g.q


def entropy_for_scalar(group, x):
    """an entropy function that makes group.random_scalar return x on the pinned sampling algorithms:
    big-endian x in whatever size is requested (Ed25519: 64 bytes reduced mod L; integer groups: masked, accepted
    because x < q)."""
    calls = []

    def f(n):
        # first request: the bytes that yield x; any further request (re-draw) yields x+1, x+2, ... so that code which
        # draws again cannot livelock the oracle and its effect becomes visible
        v = (x + len(calls)) % (256 ** n)
        calls.append(n)
        return v.to_bytes(n, "big")
    f.calls = calls
    return f


def entropy_from_bytes(chunks):
    """replays recorded entropy chunks in order; afterwards zeros"""
    it = iter(chunks)

    def f(n):
        try:
            b = next(it)
        except StopIteration:
            b = b""
        return (b + bytes(n))[:n] if len(b) < n else b[:n]
    return f


def find_password_with_scalar(group, w, length=None, limit=200000):
    """search a password (of the given length if possible) whose password_to_scalar is w  (toy groups only)"""
    lens = [length] if length is not None else [1, 2, 3]
    for ln in lens:
        space = itertools.product(range(256), repeat=ln) if ln <= 2 else (
            tuple(hashlib.sha256(b"%d" % i).digest()[:ln]) for i in range(limit))
        for n, t in enumerate(space):
            if n > limit:
                break
            pw = bytes(t)
            if group.password_to_scalar(pw) == w:
                return pw
    return None


def find_seed_with_log(group, mu, limit=20000):
    """search a seed whose arbitrary_element equals Base*mu (toy groups only)"""
    target = group.Base.scalarmult(mu).to_bytes()
    for i in range(limit):
        seed = b"s%d" % i
        if group.arbitrary_element(seed).to_bytes() == target:
            return seed
    return None


def leading_zero_scalar(make_start, limit=4000):
    """search a secret scalar for which start() yields an element encoding beginning with 00 (integer groups)"""
    for x in range(1, limit):
        m = make_start(x)
        if m[1] == 0:
            return x, m
    return None, None


def fresh_import_order_check():
    """in a fresh interpreter: build custom parameter sets FIRST, import the shipped parameter modules afterwards, and
    print the encodings of their M, N, S (they must still be the released constants)"""
    import subprocess, sys, os, json
    code = (
        "import json\n"
        "from spake2.params import _Params\n"
        "from spake2 import groups\n"
        "from spake2.ed25519_group import Ed25519Group\n"
        "_Params(groups.I1024, N=b'M', S=b'my-app symmetric')\n"
        "_Params(groups.I2048, M=b'N')\n"
        "_Params(Ed25519Group, M=b'x', N=b'x', S=b'x')\n"
        "from spake2.parameters.i1024 import Params1024\n"
        "from spake2.parameters.i2048 import Params2048\n"
        "from spake2.parameters.i3072 import Params3072\n"
        "from spake2.parameters.ed25519 import ParamsEd25519\n"
        "fresh = _Params(groups.I1024)\n"
        "out = {}\n"
        "for nm, P in (('I1024', Params1024), ('I2048', Params2048), ('I3072', Params3072), ('Ed25519', ParamsEd25519), ('fresh I1024', fresh)):\n"
        "    out[nm] = [P.M.to_bytes().hex(), P.N.to_bytes().hex(), P.S.to_bytes().hex()]\n"
        "print(json.dumps(out))\n")
    p = subprocess.run([sys.executable, "-c", code], capture_output=True, text=True, env=dict(os.environ), timeout=300)
    try:
        return json.loads(p.stdout.strip().splitlines()[-1])
    except Exception:
        return {"error": (p.stderr or p.stdout)[-400:]}


def finish_outcome(inst, msg):
    try:
        return ("key", inst.finish(msg))
    except Exception as e:
        return ("exc", type(e).__name__)


def run_exchange(flavour, params, pw, idA, idB, x, y, ser=(False, False), pwB=None, idA_B=None, idB_B=None,
                 paramsB=None, deliver_to_A=None, deliver_to_B=None):
    """runs one real exchange with chosen secret scalars; returns dict(mA, mB, oA, oB)"""
    sp = S()
    pB = paramsB or params
    if flavour == "AB":
        a = sp.SPAKE2_A(pw, idA=idA, idB=idB, params=params, entropy_f=entropy_for_scalar(params.group, x))
        b = sp.SPAKE2_B(pw if pwB is None else pwB, idA=idA if idA_B is None else idA_B,
                        idB=idB if idB_B is None else idB_B, params=pB, entropy_f=entropy_for_scalar(pB.group, y))
        KA, KB = sp.SPAKE2_A, sp.SPAKE2_B
    else:
        a = sp.SPAKE2_Symmetric(pw, idSymmetric=idA, params=params, entropy_f=entropy_for_scalar(params.group, x))
        b = sp.SPAKE2_Symmetric(pw if pwB is None else pwB, idSymmetric=idA if idA_B is None else idA_B, params=pB,
                                entropy_f=entropy_for_scalar(pB.group, y))
        KA = KB = sp.SPAKE2_Symmetric
    mA, mB = a.start(), b.start()
    if ser[0]:
        a = KA.from_serialized(a.serialize(), params=params)
    if ser[1]:
        b = KB.from_serialized(b.serialize(), params=pB)
    oA = finish_outcome(a, mB if deliver_to_A is None else deliver_to_A)
    oB = finish_outcome(b, mA if deliver_to_B is None else deliver_to_B)
    return dict(mA=mA, mB=mB, oA=oA, oB=oB, a=a, b=b)
