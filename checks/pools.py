"""pool of constructed encodings and the strict reference classification (concrete; used by replay oracles)"""

# ------------------------------------------------------------------ oracle: pool of constructed encodings
def ed_pool():
    from checks import refimpl as R
    Q, L = R.Q, R.L
    pool = []
    B = R.ED_BASE
    subgroup = [R.ed_mul(B, k) for k in (1, 2, 3, 5, 452, L - 1, L - 2, (L + 1) // 2, 2 ** 200 + 7)]
    # torsion points: T8 of order 8 from a point of order 8L
    torsion = [R.ED_ZERO]
    y = 2
    T8 = None
    while T8 is None:
        x = R.ed_recover_x(y, 0)
        if x is not None and R.ed_on_curve((x, y)):
            cand = R.ed_mul((x, y), L)
            if R.ed_mul(cand, 4) != R.ED_ZERO:
                T8 = cand
        y += 1
    torsion = [R.ed_mul(T8, k) for k in range(8)]
    pts = list(subgroup) + torsion + [R.ed_add(P, t) for P in subgroup[:3] for t in torsion[1:]]
    for P in pts:
        pool.append(R.ed_enc(P))
    canon = [R.ed_enc(P) for P in subgroup]
    for e in canon[:4]:
        pool += [e + b"x", e + e, e[:31], e[:-1] + bytes([e[-1] ^ 0x80]), e + bytes(1), b"", e[:1]]
    # a subgroup element whose encoding ends in 00 (truncation to 31 bytes decodes to the same integer)
    k = 1
    while True:
        e = R.ed_enc(R.ed_mul(B, k))
        if e[-1] == 0:
            pool += [e, e[:31], e[:31] + b"\x00\x00"]
            break
        k += 1
    # non-canonical: y + Q (for y < 19), sign bit on x = 0
    for y0 in range(0, 19):
        for sign in (0, 1):
            pool.append(((y0 + Q) | (sign << 255)).to_bytes(32, "little"))
    for y0 in (1, Q - 1):
        pool.append((y0 | (1 << 255)).to_bytes(32, "little"))
    # off-curve y values
    y = 2
    n = 0
    while n < 4:
        x2 = (y * y - 1) * pow(R.D * y * y + 1, Q - 2, Q) % Q
        if pow(x2, (Q - 1) // 2, Q) == Q - 1:
            pool.append(y.to_bytes(32, "little"))
            n += 1
        y += 1
    pool += [bytes(32), b"\xff" * 32, bytes(33), bytes(31)]
    return pool


def int_pool(rg):
    p, q, g, W = rg.p, rg.q, rg.g, rg.W
    vals = [0, 1, 2, p - 1, p, p + 1, g, pow(g, 2, p), pow(g, q - 1, p), p - g, (p - pow(g, 5, p)) % p, 3, g + p]
    pool = []
    for v in vals:
        if v < 256 ** W:
            pool.append(v.to_bytes(W, "big"))
    e = g.to_bytes(W, "big")
    pool += [e + b"\x00", b"\x00" + e, e[1:], e[:-1], b"", e + e]
    # a member whose fixed-width encoding starts with 00: the shortened big-endian form must be refused
    v = 1
    for k in range(1, 6000):
        v = v * g % p
        if v < 256 ** (W - 1):
            z = v.to_bytes(W, "big")
            pool += [z, z[1:], b"\x00" + z, z[1:] + b"\x00"]
            break
    # a member with a leading zero byte is still W bytes
    return pool


def oracle_pool(group, extra=()):
    from checks import refimpl as R
    from checks import published_constants as PC
    if group == "Ed25519":
        from spake2.ed25519_group import Ed25519Group as g
        rg = R.RefEdGroup()
        pool = ed_pool()
    else:
        from spake2 import groups
        from checks import common as C
        if hasattr(groups, group):
            g = getattr(groups, group)
            d = PC.INT_GROUPS[group]
            rg = R.RefIntGroup(d["p"], d["q"], d["g"])
        else:
            g = C.toy_group(group)
            rg = R.RefIntGroup(*C.TOYS[group])
        pool = int_pool(rg)
    for b in list(extra) + pool:
        want = rg.decode(b)
        try:
            e = g.bytes_to_element(b)
            got = e.to_bytes()
        except Exception as ex:
            if want is not None:
                return (True, "%s: canonical encoding %s of a subgroup element refused (%s)" % (group, b.hex()[:70], type(ex).__name__))
            continue
        if want is None:
            why = "len=%d" % len(b)
            return dict(violated=True, detail="%s: bytes_to_element accepted %s (%s), which is not the canonical encoding of a "
                        "non-identity subgroup element; re-encodes to %s" % (group, b.hex()[:80], why, got.hex()[:70]),
                        **{"class": "lenient-decode"})
        if got != b:
            return (True, "%s: accepted %s re-encodes to %s" % (group, b.hex()[:70], got.hex()[:70]))
    # finish() must refuse what the decoder must refuse
    return (False, "pool classified correctly")


