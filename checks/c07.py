"""C07 -- an instance is single-use over every call history."""
import itertools
import z3
from symx.core import Ctx, SymInt, SymBytes, SymBool, T, B, model_int
from symx import loader
from symx.proto import (Entropy, setup_hash_axioms, outcome, okind, orders, new_instance, restore, sym_inputs,
                        abstract_params, klass, PEER, SIDE_BYTE)

PID = "C07"
TECHNIQUE = 'inductive step over a symbolic pre-state (symbolic finished flag, real constructors/restores) against a 4-state specification automaton, plus bounded symbolic histories (depth 2 quick / 4 thorough)'
LEVEL_NOTE = 'induction over histories; abstract group'
EXPLANATION = (
    "Inductive step instead of history enumeration: an instance of each real class is built by the real constructor, "
    "by the real start(), or by the real from_serialized(); its _finished flag is then replaced by a symbolic boolean "
    "(all four flag combinations are reachable by real histories, so the representation invariant is 'started => "
    "xy_scalar/xy_elem/outbound_message exist'). One call of start(), finish(msg) with a fully symbolic message (side "
    "byte and body symbolic, so valid-peer / own-side / unknown-side / reflected / undecodable / identity all occur as "
    "paths), or serialize() is executed and the solver compares outcome class and post-state with a 4-state "
    "specification automaton: start returns a message only from not-started (never on a restored instance) and sets "
    "started, else OnlyCallStartOnce with the state unchanged; finish returns a key only from started & not-finished, "
    "raises OnlyCallFinishOnce from finished with the state unchanged, and sets finished before anything can raise; "
    "serialize raises SerializedTooEarly iff not started, changes nothing, and reports the same xy_scalar before and "
    "after every operation. By induction this covers histories of any length. As a cross-check all histories up to "
    "the stated depth over 8 operation kinds are executed symbolically (operation choice concrete, arguments "
    "symbolic) and compared with the automaton."
)
TRUSTED = ["abstract group contract GC", "induction over call histories (the step is solver-checked)"]
ASSUMPTIONS = ["history cross-check depth: 2 (quick) / 4 (thorough)"]

OPS = ["start", "finish_peer", "finish_own_side", "finish_unknown_side", "finish_reflected", "finish_undecodable",
       "serialize", "restore"]


def jobs(tier):
    js = []
    for qn in (["11", "L"] if tier == "quick" else ["11", "L", "q1024"]):
        for cls in "ABS":
            for mode in ("fresh", "started", "restored"):
                for op in ("start", "finish", "serialize"):
                    js.append(("job_step", dict(_name="step q=%s %s pre=%s op=%s" % (qn, cls, mode, op),
                                                qn=qn, cls=cls, mode=mode, op=op)))
                    if qn == "11" and mode == "restored":            # empty password and identities
                        js.append(("job_step", dict(_name="step q=%s %s pre=%s op=%s empty inputs" % (qn, cls, mode, op),
                                                    qn=qn, cls=cls, mode=mode, op=op, lens=(0, 0, 0))))
    depth = 2 if tier == "quick" else 4
    for cls in "ABS":
        seqs = list(itertools.product(range(len(OPS)), repeat=depth))
        chunk = max(1, len(seqs) // 12)
        for i in range(0, len(seqs), chunk):
            js.append(("job_histories", dict(_name="histories %s depth=%d [%d:%d]" % (cls, depth, i, i + chunk),
                                             cls=cls, seqs=seqs[i:i + chunk])))
    return js


_FLAGS = {}


def _flags(cls):
    """names of the instance attributes that record 'started' and 'finished', found by watching which boolean attribute
    turns True in a concrete start() / finish() on a toy group (the names are private to the implementation and may be
    renamed by a refactoring; the property only speaks about the calls)"""
    if cls in _FLAGS:
        return _FLAGS[cls]
    G, P, S = loader.MODS["groups"], loader.MODS["params"], loader.MODS["spake2"]
    K = {"A": S.SPAKE2_A, "B": S.SPAKE2_B, "S": S.SPAKE2_Symmetric}
    params = P._Params(G.IntegerGroup(p=23, q=11, g=2))
    mk = lambda c, x: K[c](b"pw", params=params, entropy_f=lambda n, x=x: x.to_bytes(n, "big"))
    inst, peer = mk(cls, 2), mk(PEER[cls], 7)
    bools = lambda o: {k: v for k, v in vars(o).items() if isinstance(v, bool)}
    d0 = bools(inst)
    inst.start()
    d1 = bools(inst)
    started = [k for k in d1 if d1[k] is True and d0.get(k) is not True]
    try:
        inst.finish(peer.start())
    except Exception:
        pass
    d2 = bools(inst)
    finished = [k for k in d2 if d2[k] is True and d1.get(k) is not True]
    _FLAGS[cls] = (started[0] if len(started) == 1 else None, finished[0] if len(finished) == 1 else None)
    return _FLAGS[cls]


def _state(inst):
    """observable + internal state as terms/objects for comparison"""
    return dict(inst.__dict__)


def _same(a, b):
    """term: two attribute values are equal"""
    if a is b:
        return z3.BoolVal(True)
    if isinstance(a, SymBool) or isinstance(b, SymBool) or isinstance(a, bool) and isinstance(b, bool):
        return B(a) == B(b)
    if isinstance(a, (SymInt, int)) and isinstance(b, (SymInt, int)) and not isinstance(a, bool):
        return T(a) == T(b)
    if isinstance(a, (SymBytes, bytes)) and isinstance(b, (SymBytes, bytes)):
        return SymBytes.of(a).eq_term(b)
    if hasattr(a, "log") and hasattr(b, "log"):
        return a.log == b.log
    return z3.BoolVal(a == b if not callable(a) else a is b)


def _unchanged(pre, post, skip=()):
    conj = []
    for k in set(pre) | set(post):
        if k in skip:
            continue
        if k not in pre or k not in post:
            return z3.BoolVal(False)
        conj.append(_same(pre[k], post[k]))
    return z3.And(conj)


def job_step(J, qn, cls, mode, op, lens=(1, 1, 0)):
    q = orders()[qn]
    S = loader.MODS["spake2"]
    J.bounds.update(q=qn, cls=cls, pre_state=mode, op=op, lens=lens)

    F_started, F_finished = _flags(cls)
    if F_started is None or F_finished is None:
        # no pair of boolean flags to make symbolic: the inductive step cannot be set up on this tree; the bounded
        # histories jobs still run, but the claim "for histories of any length" is then undecided
        J.obligations.append(dict(name="the implementation records started/finished in two boolean attributes (needed to "
                                       "inject an arbitrary pre-state)", verdict="unknown", secs=0.0))
        return

    def h(ctx):
        setup_hash_axioms(ctx)
        params = abstract_params(q, rejects_identity=(qn == "L"))
        W = params.group.element_size_bytes
        pw, idA, idB = sym_inputs(lens)
        ent = Entropy("ent")
        inst = new_instance(cls, params, pw, idA, idB, ent)
        own = None
        if mode in ("started", "restored"):
            own = inst.start()
        if mode == "restored":
            inst = restore(cls, inst, params)
        fin = SymBool(ctx.fresh_bool("finished"))
        real_started = getattr(inst, F_started)
        setattr(inst, F_finished, fin)
        calls_before = len(ent.calls)
        pre = _state(inst)
        w = dict(inst=inst, pre=pre, fin=fin, ent=ent, own=own, started=real_started, pw=pw, idA=idA)
        ctx.data["w"] = w
        if op == "start":
            o = outcome(inst.start)
        elif op == "serialize":
            o = outcome(inst.serialize)
        else:
            msg = SymBytes.fresh("side", 1) + SymBytes.fresh_chunk("body", W)
            w["msg"] = msg
            o = outcome(inst.finish, msg)
        w["o"] = o
        w["post"] = _state(inst)
        w["draws"] = len(ent.calls) - calls_before
        return okind(o)

    for r in J.explore(h):
        w = r.ctx.data.get("w")
        J.reach(r)
        cex = lambda m, w=w: _cex_step(w, m, cls, mode, op)
        if r.kind != "ret" or w is None or "o" not in w:
            J.claim(r, "pre-state construction succeeds", False, cex=cex, oracle="step")
            continue
        kind = okind(w["o"])
        kind = "ret" if w["o"][0] == "ret" else kind
        pre, post, fin = w["pre"], w["post"], w["fin"].t
        started = mode != "fresh"
        J.claim(r, "pre-state: started flag as the real history sets it", B(w["started"]) == z3.BoolVal(started),
                cex=cex, oracle="step")
        if op == "start":
            if started:
                J.claim(r, "start() on a started/restored instance raises OnlyCallStartOnce (%s)" % kind,
                        kind == "OnlyCallStartOnce", cex=cex, oracle="step")
                J.claim(r, "failed start() leaves the state (incl. xy_scalar) unchanged and draws no entropy",
                        z3.And(_unchanged(pre, post), w["draws"] == 0), cex=cex, oracle="step")
            else:
                J.claim(r, "start() from not-started returns a message (%s)" % kind, kind == "ret", cex=cex, oracle="step")
                J.claim(r, "start() sets started, keeps finished, draws entropy once",
                        z3.And(B(post.get(F_started, False)), B(post[F_finished]) == fin, w["draws"] == 1),
                        cex=cex, oracle="step")
        elif op == "serialize":
            if not started:
                J.claim(r, "serialize() before start() raises SerializedTooEarly (%s)" % kind,
                        kind == "SerializedTooEarly", cex=cex, oracle="step")
            else:
                J.claim(r, "serialize() on a started instance returns (%s)" % kind, kind == "ret", cex=cex, oracle="step")
                if kind == "ret":
                    d = w["o"][1].obj if hasattr(w["o"][1], "obj") else None
                    ok = d is not None and "xy_scalar" in d
                    J.claim(r, "serialize() output carries xy_scalar", ok, cex=cex, oracle="step")
                    if ok:
                        g = w["inst"].params.group
                        J.claim(r, "reported xy_scalar is the instance's secret scalar",
                                d["xy_scalar"].b.eq_term(g.scalar_to_bytes(pre["xy_scalar"])), cex=cex, oracle="step")
            J.claim(r, "serialize() changes nothing and draws no entropy",
                    z3.And(_unchanged(pre, post), w["draws"] == 0), cex=cex, oracle="step")
        else:
            J.claim(r, "finish() draws no entropy", w["draws"] == 0, cex=cex, oracle="step")
            if kind == "OnlyCallFinishOnce":
                J.claim(r, "OnlyCallFinishOnce only from finished", fin, cex=cex, oracle="step")
                J.claim(r, "refused finish() leaves the state unchanged", _unchanged(pre, post), cex=cex, oracle="step")
            else:
                J.claim(r, "finish() from finished raises OnlyCallFinishOnce, not %s" % kind, z3.Not(fin), cex=cex,
                        oracle="step")
                J.claim(r, "finish() sets finished before anything can raise (%s)" % kind, B(post[F_finished]),
                        cex=cex, oracle="step")
                J.claim(r, "finish() never alters started / xy_scalar",
                        _unchanged(pre, post, skip=(F_finished, "inbound_message")), cex=cex, oracle="step")
                if kind == "ret":
                    J.claim(r, "a key is returned only by a started instance", started, cex=cex, oracle="step")


def _cex_step(w, m, cls, mode, op):
    if w is None:
        return None
    fin = bool(m is not None and z3.is_true(m.eval(w["fin"].t, model_completion=True)))
    hist = {"fresh": [], "started": ["start"], "restored": ["start", "restore"]}[mode]
    if fin:
        hist = hist + ["finish_unknown_side"]
    if op == "finish":
        side = w["msg"][0:1].model_bytes(m)[0]
        peer = SIDE_BYTE[PEER[cls]]
        last = "finish_peer" if side == peer else ("finish_own_side" if side == SIDE_BYTE[cls] else "finish_unknown_side")
        tails = [[last], ["finish_reflected"], ["finish_undecodable"]]
    else:
        tails = [[op]]
    return dict(cls=cls, histories=[hist + t for t in tails], pw=w["pw"].model_bytes(m), idA=w["idA"].model_bytes(m))


# ---------------------------------------------------------------- specification automaton
def spec_step(state, op):
    """state = (started, finished, restored).  returns (outcome class, new state).
    outcome classes: 'msg', 'key', 'blob', 'instance', or an exception name, or 'raises' (any exception)"""
    started, finished, restored = state
    if op == "start":
        if started:
            return "OnlyCallStartOnce", state
        return "msg", (True, finished, restored)
    if op == "serialize":
        return ("blob", state) if started else ("SerializedTooEarly", state)
    if op == "restore":
        return ("instance", (True, False, True)) if started else ("SerializedTooEarly", state)
    # finish_*
    if finished:
        return "OnlyCallFinishOnce", state
    ns = (started, True, restored)
    if not started:
        return "raises", ns
    if op == "finish_peer":
        return "key", ns
    if op == "finish_reflected":
        return "ReflectionThwarted", ns
    if op in ("finish_own_side",):
        return "OffSides_or_raises", ns
    return "raises", ns


def _matches(got, want, cls, op):
    if want == "raises":
        return got not in ("key", "msg", "blob", "instance")
    if want == "OffSides_or_raises":
        # own side: A/B must raise OffSides; Symmetric's own side is the valid peer side, handled by caller
        return got == "OffSides"
    return got == want


def job_histories(J, cls, seqs):
    q = 11
    S = loader.MODS["spake2"]
    J.bounds.update(cls=cls, depth=len(seqs[0]), histories=len(seqs), q="11")
    for seq in seqs:
        ops = [OPS[i] for i in seq]
        if cls == "S" and "finish_own_side" in ops:
            continue        # for Symmetric the own side is the valid peer side (covered by finish_peer)

        def h(ctx, ops=ops):
            setup_hash_axioms(ctx)
            params = abstract_params(q)
            W = params.group.element_size_bytes
            pw, idA, idB = sym_inputs((1, 0, 0))
            ent = Entropy("ent")
            inst = new_instance(cls, params, pw, idA, idB, ent)
            peer = new_instance(PEER[cls], params, pw, idA, idB, Entropy("pent"))
            pmsg = SymBytes.of(peer.start())
            ctx.assume(z3.Not(pmsg[1:].eq_term(SymBytes.of(_own_preview(inst, ctx)))) if False else z3.BoolVal(True))
            trace, scalars, draws = [], [], []
            own = None
            for op in ops:
                n0 = len(ent.calls)
                if op == "start":
                    o = outcome(inst.start)
                    got = "msg" if o[0] == "ret" else o[1]
                    if o[0] == "ret":
                        own = SymBytes.of(o[1])
                elif op == "serialize":
                    o = outcome(inst.serialize)
                    got = "blob" if o[0] == "ret" else o[1]
                elif op == "restore":
                    o = outcome(restore, cls, inst, params)
                    got = "instance" if o[0] == "ret" else o[1]
                    if o[0] == "ret":
                        inst = o[1]
                else:
                    if op == "finish_peer":
                        msg = pmsg
                    elif op == "finish_own_side":
                        msg = SymBytes([SIDE_BYTE[cls]]) + pmsg[1:]
                    elif op == "finish_unknown_side":
                        sb = SymBytes.fresh("sb", 1)
                        ctx.assume(z3.And(T(sb[0]) != 0x41, T(sb[0]) != 0x42, T(sb[0]) != 0x53))
                        msg = sb + pmsg[1:]
                    elif op == "finish_reflected":
                        msg = SymBytes([SIDE_BYTE[PEER[cls]]]) + (own[1:] if own is not None else pmsg[1:])
                    else:
                        msg = SymBytes([SIDE_BYTE[PEER[cls]]]) + SymBytes.fresh_chunk("junk", W - 1)
                    o = outcome(inst.finish, msg)
                    got = "key" if o[0] == "ret" else o[1]
                trace.append(got)
                draws.append(len(ent.calls) - n0)
                scalars.append(getattr(inst, "xy_scalar", None))
            ctx.data["w"] = dict(trace=trace, scalars=scalars, draws=draws, own=own, pmsg=pmsg)
            return tuple(trace)

        for r in J.explore(h, max_paths=60):
            if r.kind != "ret":
                J.claim(r, "history %s executes" % (ops,), False, cex=lambda m: dict(cls=cls, histories=[ops], pw=b"p", idA=b""),
                        oracle="step", sample=False)
                continue
            w = r.ctx.data["w"]
            state = (False, False, False)
            ok = True
            for i, op in enumerate(ops):
                want, state2 = spec_step(state, op)
                got = w["trace"][i]
                good = _matches(got, want, cls, op)
                if op == "finish_peer" and want == "key" and got == "ReflectionThwarted":
                    # degenerate coincidence: peer sent the same blinded element (allowed, C01)
                    good = ("eq", w["pmsg"][1:].eq_term(w["own"][1:]))
                if good is False:
                    ok = "step %d (%s): automaton says %s, implementation %s" % (i, op, want, got)
                    break
                if isinstance(good, tuple):
                    ok = good
                want_draw = 1 if (op == "start" and want == "msg") else 0
                if w["draws"][i] != want_draw:
                    ok = "step %d (%s): %d entropy draws, expected %d" % (i, op, w["draws"][i], want_draw)
                    break
                state = state2
            cex = lambda m, ops=ops: dict(cls=cls, histories=[ops], pw=b"p", idA=b"")
            if ok is True:
                J.claim(r, "history %s matches the automaton" % "/".join(ops), True, sample=False)
                # the secret scalar never changes once set
                sc = [s for s in w["scalars"] if s is not None]
                if len(sc) > 1:
                    J.claim(r, "xy_scalar constant along %s" % "/".join(ops),
                            z3.And([T(sc[0]) == T(s) for s in sc[1:]]), cex=cex, oracle="step", sample=False)
            elif isinstance(ok, tuple):
                J.claim(r, "history %s: ReflectionThwarted on peer message only if elements coincide" % "/".join(ops),
                        ok[1], cex=cex, oracle="step", sample=False)
            else:
                J.claim(r, "history %s: %s" % ("/".join(ops), ok), False, cex=cex, oracle="step")
        if len(J.samples) < 3:
            J.samples.append(dict(history=ops))


def _own_preview(inst, ctx):
    return SymBytes([])


# ------------------------------------------------------------------ oracle
def oracle_step(cls, histories, pw, idA):
    """execute concrete histories on the real classes (all shipped parameter sets) and compare with the automaton"""
    from checks import common as C
    sp = C.S()
    K = {"A": sp.SPAKE2_A, "B": sp.SPAKE2_B, "S": sp.SPAKE2_Symmetric}
    pc = PEER[cls]
    for nm in ("Ed25519", "I1024", "toy11"):
        params = C.params_by_name(nm)
        qq = C.group_order(params.group)
        for ops, x0 in [(o, x_) for o in histories for x_ in (5, 0, 1, qq - 1)]:
            def mk(c, x):
                e = C.entropy_for_scalar(params.group, x)
                if c == "S":
                    return K[c](pw, idSymmetric=idA, params=params, entropy_f=e), e
                return K[c](pw, idA=idA, idB=b"", params=params, entropy_f=e), e
            inst, ent = mk(cls, x0)
            # the honest peer message must not be the element this instance itself sends (on an 11-element group that
            # coincidence is likely and would legitimately end in ReflectionThwarted, which the automaton does not model)
            own_probe = mk(cls, x0)[0].start()
            for y_ in (7, 8, 9, 3, 2, 6):
                pmsg = mk(pc, y_ % qq)[0].start()
                if pmsg[1:] != own_probe[1:]:
                    break
            state = (False, False, False)
            own = None
            scalar = None
            for i, op in enumerate(ops):
                n0 = len(ent.calls)
                try:
                    if op == "start":
                        own = inst.start()
                        got = "msg"
                    elif op == "serialize":
                        blob = inst.serialize()
                        got = "blob"
                    elif op == "restore":
                        inst = K[cls].from_serialized(inst.serialize(), params=params)
                        got = "instance"
                    else:
                        if op == "finish_peer":
                            msg = pmsg
                        elif op == "finish_own_side":
                            msg = bytes([SIDE_BYTE[cls]]) + pmsg[1:]
                        elif op == "finish_unknown_side":
                            msg = b"C" + pmsg[1:]
                        elif op == "finish_reflected":
                            msg = bytes([SIDE_BYTE[pc]]) + (own[1:] if own else pmsg[1:])
                        else:
                            msg = bytes([SIDE_BYTE[pc]]) + bytes(len(pmsg) - 2)
                        inst.finish(msg)
                        got = "key"
                except Exception as e:
                    got = type(e).__name__
                if cls == "S" and op == "finish_own_side":
                    op_spec = "finish_peer"
                else:
                    op_spec = op
                want, state = spec_step(state, op_spec)
                if not _matches(got, want, cls, op_spec):
                    return (True, "%s on %s (secret scalar %d): history %s step %d: automaton %s, implementation %s" % (cls, nm, x0, ops, i, want, got))
                draws = len(ent.calls) - n0
                if draws != (1 if want == "msg" else 0):
                    return (True, "%s on %s: history %s step %d drew entropy %d times" % (cls, nm, ops, i, draws))
                cur = getattr(inst, "xy_scalar", None)
                if scalar is not None and cur != scalar:
                    return (True, "%s on %s: history %s step %d changed xy_scalar" % (cls, nm, ops, i))
                scalar = cur if cur is not None else scalar
    return (False, "all histories match")


ORACLES = dict(step=oracle_step)
