"""C16 -- sessions are pure and isolated under any interleaving."""
import itertools
import z3
from symx.core import Ctx, SymInt, SymBytes, SymBool, SymHex, T, B, model_int
from symx import loader, env
from symx.absgroup import AbsGroup, AbsElem
from symx.proto import (Entropy, setup_hash_axioms, outcome, okind, orders, new_instance, restore, sym_inputs, klass,
                        PEER, SIDE_BYTE)

PID = "C16"
TECHNIQUE = 'symbolic footprint/determinism check, write monitor over every symbolic path (parameter/group/element objects, modules, classes, function defaults), symbolic execution of all interleavings of 2 and 3 sessions vs isolated runs'
LEVEL_NOTE = 'real thread schedules are not explored: the thread clause rests on the frame condition; call-granularity schedules'
EXPLANATION = (
    "Three solver-side obligations over the real classes. (1) Footprint and determinism: the message, key and "
    "serialized fields of a session are terms over that session's own constructor arguments, entropy bytes and inbound "
    "message only (free-variable check against the symbols of concurrently existing sessions) and two runs on equal "
    "inputs give equal terms. (2) Frame condition on every symbolic path: a write monitor snapshots the shared "
    "_Params objects, group objects, the element singletons Base/Zero/M/N/S, the module globals of spake2.spake2/"
    "groups/params/ed25519_basic/ed25519_group/util and the class dictionaries before and after constructor, start, "
    "serialize, from_serialized and finish: nothing outside the instance itself is written. (3) Interleavings: for 2 "
    "sessions x {start, serialize+restore, finish} (20 schedules) and 3 sessions x {start, finish} (90 schedules) with "
    "independent symbolic passwords/identities/entropy, sharing or not sharing the parameter object, every schedule "
    "that respects message availability is executed symbolically and each session's outputs are proved equal to its "
    "isolated run. Real thread schedules are NOT explored: the multi-thread clause rests on (2) -- no shared location "
    "is written, hence any interleaving at any granularity is equivalent to isolated runs."
)
TRUSTED = ["abstract group contract GC", "no engine for Python threads in this family: the thread clause is covered only by the "
           "frame condition argument (stated)"]
ASSUMPTIONS = ["session counts 2 and 3; schedules at call granularity"]


def jobs(tier):
    js = []
    for cls in "ABS":
        js.append(("job_frame", dict(_name="frame condition + footprint %s" % cls, cls=cls)))
    scheds2 = _schedules([3, 3])
    scheds3 = _schedules([2, 2, 2])
    for shared in (1, 0):
        for mix in ("AA", "AB", "AS", "SS"):
            if tier == "quick" and ((not shared and mix != "AS") or (shared and mix in ("AB", "SS"))):
                continue
            for ci in range(4):
                ch = scheds2[ci::4]
                js.append(("job_interleave", dict(_name="2 sessions %s shared_params=%d: schedules %d/4 (%d of %d)" % (mix, shared, ci + 1, len(ch), len(scheds2)),
                                                  roles=list(mix), shared=shared, ops=3, scheds=ch)))
    for g in ("I1024", "Ed25519"):
        for cls in "AS":
            js.append(("job_frame_real", dict(_name="frame condition on the real %s objects, class %s (up to 2 entropy draws)" % (g, cls),
                                              gname=g, cls=cls)))
    for g in ("toy11", "I1024", "Ed25519"):
        js.append(("job_matrix", dict(_name="session matrix on the plain package: %s (ground)" % g, gname=g)))
    chunks = [scheds3[i::18] for i in range(18)]
    for i, ch in enumerate(chunks):
        if tier == "quick" and i > 2:
            continue
        js.append(("job_interleave", dict(_name="3 sessions ABS shared_params=1: schedules %d/18 (%d)" % (i + 1, len(ch)),
                                          roles=list("ABS"), shared=1, ops=2, scheds=ch)))
    return js


def _schedules(counts):
    """all interleavings of len(counts) sequences with the given lengths (as tuples of session indices)"""
    items = []
    for i, c in enumerate(counts):
        items += [i] * c
    return sorted(set(itertools.permutations(items)))


# ------------------------------------------------------------------ write monitor
_MODS = ("spake2", "groups", "params", "ed25519_basic", "ed25519_group", "util", "parameters.ed25519",
         "parameters.i1024", "parameters.i2048", "parameters.i3072")
_IGNORE = {"entropy_requests", "__sym_mod__", "__sym_join__"}


def shared_objects(params_list):
    objs = {}
    for i, p in enumerate(params_list):
        objs["params%d" % i] = p
        objs["params%d.group" % i] = p.group
        for nm in ("M", "N", "S"):
            objs["params%d.%s" % (i, nm)] = getattr(p, nm)
        for nm in ("Base", "Zero"):
            objs["params%d.group.%s" % (i, nm)] = getattr(p.group, nm)
    for m in _MODS:
        objs["module " + m] = loader.MODS[m]
    S = loader.MODS["spake2"]
    for c in (S._SPAKE2_Base, S._SPAKE2_Asymmetric, S.SPAKE2_A, S.SPAKE2_B, S.SPAKE2_Symmetric,
              loader.MODS["params"]._Params, loader.MODS["groups"]._Element, loader.MODS["groups"].IntegerGroup,
              loader.MODS["ed25519_basic"].Element, loader.MODS["ed25519_basic"].ElementOfUnknownGroup,
              AbsGroup, AbsElem):
        objs["class " + c.__name__] = c
    return objs


def _contents(v):
    return (len(v), tuple(id(x) for x in (v.values() if isinstance(v, dict) else v))[:50])


def _function_state(snap, owner, fname, f):
    """mutable state hidden in a function object: default arguments, keyword defaults, closure cells, attributes"""
    import types
    f = getattr(f, "__func__", f)
    if not isinstance(f, types.FunctionType):
        return
    for i, dv in enumerate(f.__defaults__ or ()):
        if isinstance(dv, (dict, list, set)):
            snap[(owner, "%s.__defaults__[%d] (container contents)" % (fname, i))] = _contents(dv)
    for k, dv in (f.__kwdefaults__ or {}).items():
        if isinstance(dv, (dict, list, set)):
            snap[(owner, "%s.__kwdefaults__[%s] (container contents)" % (fname, k))] = _contents(dv)
    for i, cell in enumerate(f.__closure__ or ()):
        try:
            cv = cell.cell_contents
        except ValueError:
            continue
        if isinstance(cv, (dict, list, set)):
            snap[(owner, "%s closure cell %d (container contents)" % (fname, i))] = _contents(cv)
    for k, dv in f.__dict__.items():
        snap[(owner, "%s.%s (function attribute)" % (fname, k))] = _contents(dv) if isinstance(dv, (dict, list, set)) else dv


def snapshot(objs):
    snap = {}
    for name, o in objs.items():
        d = getattr(o, "__dict__", None)
        if d is None:
            continue
        for k, v in list(d.items()):
            if k in _IGNORE:
                continue
            snap[(name, k)] = v
            if isinstance(v, (dict, list, set)) and not k.startswith("__"):
                # in-place mutation of a shared container is a write too
                snap[(name, k + " (container contents)")] = _contents(v)
            if name.startswith(("module ", "class ")) and not k.startswith("__"):
                _function_state(snap, name, k, v)
    return snap


def diff(before, after):
    out = []
    for k in set(before) | set(after):
        if k not in before:
            out.append("new attribute %s.%s" % k)
        elif k not in after:
            out.append("deleted %s.%s" % k)
        elif before[k] is not after[k]:
            a, b = before[k], after[k]
            same = False
            if type(a) is type(b) and isinstance(a, (int, str, bytes, bool, float, type(None), tuple)) and not isinstance(a, AbsElem):
                try:
                    same = (a == b) is True
                except Exception:
                    same = False
            if not same:
                out.append("rewritten %s.%s" % k)
    return out


def _split_writes(d):
    """the property forbids writes to the shared parameter-set / group objects (and the classes all sessions share);
    module- or function-level state is only a tripwire: harmless if no session's behaviour depends on it"""
    hard = [x for x in d if " module " not in (" " + x)]
    softw = [x for x in d if " module " in (" " + x)]
    return hard, softw


def _abs_params(q, tag, shared_with=None):
    P = loader.MODS["params"]
    if shared_with is not None:
        return shared_with
    return P._Params(AbsGroup(q, tag=tag))


def _outputs(inst, msg, key_outcome, blob):
    return dict(msg=msg, key=key_outcome, blob=blob)


def _eq_out(a, b):
    """term: two session outputs (message, finish outcome, serialized dict) are equal"""
    conj = []
    if (a["msg"] is None) != (b["msg"] is None):
        return z3.BoolVal(False)
    if a["msg"] is not None:
        conj.append(SymBytes.of(a["msg"]).eq_term(b["msg"]))
    ka, kb = a["key"], b["key"]
    if (ka is None) != (kb is None):
        return z3.BoolVal(False)
    if ka is not None:
        if okind(ka) != okind(kb):
            return z3.BoolVal(False)
        if ka[0] == "ret":
            conj.append(SymBytes.of(ka[1]).eq_term(kb[1]))
    if (a["blob"] is None) != (b["blob"] is None):
        return z3.BoolVal(False)
    if a["blob"] is not None:
        from checks.c08 import _dict_equal
        conj.append(_dict_equal(a["blob"], b["blob"]))
    return z3.And(conj) if conj else z3.BoolVal(True)


def _symbols(*vals):
    names = set()

    def walk(e, seen):
        if e.get_id() in seen:
            return
        seen.add(e.get_id())
        if z3.is_const(e) and e.decl().kind() == z3.Z3_OP_UNINTERPRETED:
            names.add(e.decl().name())
        for ch in e.children():
            walk(ch, seen)
    seen = set()
    for v in vals:
        if v is None:
            continue
        if isinstance(v, dict):
            for x in v.values():
                if isinstance(x, SymHex):
                    walk(x.b.value(), seen)
            continue
        if isinstance(v, tuple):
            if v[0] == "ret":
                walk(SymBytes.of(v[1]).value(), seen)
            continue
        walk(SymBytes.of(v).value(), seen)
    return names


# ------------------------------------------------------------------ (1) + (2)
def job_frame(J, cls):
    q = 11
    J.bounds.update(cls=cls, q="11")

    def h(ctx):
        setup_hash_axioms(ctx)
        P = loader.MODS["params"]
        params = P._Params(AbsGroup(q, tag="G"))
        other_params = P._Params(AbsGroup(q, tag="H"))
        W = params.group.element_size_bytes
        objs = shared_objects([params, other_params])
        pw, idA, idB = sym_inputs((2, 1, 1), "s1")
        pw2, idA2, idB2 = sym_inputs((2, 1, 1), "s2")
        log = []
        ent = Entropy("s1ent")
        s0 = snapshot(objs)
        a = new_instance(cls, params, pw, idA, idB, ent)
        other = new_instance(PEER[cls], other_params, pw2, idA2, idB2, Entropy("s2ent"))   # a concurrently existing session
        log.append(("constructor", diff(s0, snapshot(objs))))
        s0 = snapshot(objs)
        msg = a.start()
        omsg = other.start()
        log.append(("start", diff(s0, snapshot(objs))))
        s0 = snapshot(objs)
        blob = a.serialize()
        log.append(("serialize", diff(s0, snapshot(objs))))
        s0 = snapshot(objs)
        b = restore(cls, a, params)
        log.append(("from_serialized", diff(s0, snapshot(objs))))
        inbound = SymBytes.fresh("s1side", 1) + SymBytes.fresh_chunk("s1body", W)
        s0 = snapshot(objs)
        oa = outcome(a.finish, inbound)
        ob = outcome(b.finish, inbound)
        log.append(("finish", diff(s0, snapshot(objs))))
        # determinism: an identical second session
        a2 = new_instance(cls, params, pw, idA, idB, lambda n: ent.calls[0][1])
        msg2 = a2.start()
        oa2 = outcome(a2.finish, inbound)
        ctx.data["w"] = dict(log=log, msg=msg, oa=oa, blob=blob.obj, msg2=msg2, oa2=oa2, pw=pw)
        return True
    for r in J.explore(h):
        w = r.ctx.data.get("w")
        J.reach(r)
        cex = lambda m: dict(cls=cls, roles=[cls, PEER[cls]], shared=1, sched=[0, 1, 0, 1], ops=2)
        if r.kind != "ret":
            J.claim(r, "sessions run (%s)" % type(r.value).__name__, False, cex=cex, oracle="interleave")
            continue
        for op, d in w["log"]:
            hard, softw = _split_writes(d)
            J.claim(r, "%s writes nothing to the shared parameter/group/element objects or classes %s" % (op, hard[:3] if hard else ""),
                    not hard, cex=cex, oracle="interleave")
            J.claim(r, "%s leaves module-level and function-level state alone %s" % (op, softw[:3] if softw else ""), not softw,
                    cex=cex, oracle="interleave", soft=True)
        syms = _symbols(w["msg"], w["oa"], w["blob"])
        foreign = sorted(s for s in syms if s.startswith("s2"))
        J.claim(r, "outputs mention only the session's own inputs (foreign symbols: %s)" % foreign, not foreign, cex=cex, oracle="interleave")
        J.claim(r, "equal inputs give equal message and key",
                _eq_out(dict(msg=w["msg"], key=w["oa"], blob=None), dict(msg=w["msg2"], key=w["oa2"], blob=None)), cex=cex, oracle="interleave")


def job_frame_real(J, gname, cls):
    """the write monitor over every symbolic path of a session on the REAL shipped parameter/group objects (exponent
    domain / abstract points), including paths on which the first entropy draw is rejected"""
    from checks import realtier as RT

    def h(ctx):
        w = RT.make_world(ctx, gname)
        try:
            objs = shared_objects([w.params])
            pw, idA, idB = sym_inputs((2, 1, 1), "s1")
            log = []
            s0 = snapshot(objs)
            a = new_instance(cls, w.params, pw, idA, idB, Entropy("s1ent", max_calls=2))
            log.append(("constructor", diff(s0, snapshot(objs))))
            s0 = snapshot(objs)
            msg = a.start()
            log.append(("start", diff(s0, snapshot(objs))))
            s0 = snapshot(objs)
            b = restore(cls, a, w.params)
            log.append(("serialize+from_serialized", diff(s0, snapshot(objs))))
            peer = new_instance(PEER[cls], w.params, pw, idA, idB, Entropy("s2ent", max_calls=1))
            inbound = peer.start()
            s0 = snapshot(objs)
            o = outcome(b.finish, inbound)
            log.append(("finish", diff(s0, snapshot(objs))))
            ctx.data["w"] = dict(log=log)
            return True
        finally:
            RT.teardown(w)
    for r in J.explore(h, max_paths=120):
        J.reach(r)
        cex = lambda m: dict(cls=cls, roles=[cls, PEER[cls]], shared=1, sched=[0, 1, 0, 1], ops=2)
        if r.kind != "ret":
            J.claim(r, "real %s session runs (%s)" % (gname, type(r.value).__name__), False, cex=cex, oracle="interleave")
            continue
        for op, d in r.ctx.data["w"]["log"]:
            hard, softw = _split_writes(d)
            J.claim(r, "real %s: %s writes nothing to the shared parameter/group/element objects or classes %s" % (gname, op, hard[:3] if hard else ""),
                    not hard, cex=cex, oracle="interleave")
            J.claim(r, "real %s: %s leaves module-level and function-level state alone %s" % (gname, op, softw[:3] if softw else ""),
                    not softw, cex=cex, oracle="interleave", soft=True)


def job_matrix(J, gname):
    from checks import matrix
    r = matrix.session_matrix((gname,))
    J.ground("sessions of the matrix on %s with identical entropy (same/different passwords, roles, seeds; one process, both "
             "orders) each behave as the reference says, unaffected by the sessions before them" % gname, r is None, r,
             oracle="interleave", args=dict(cls="A", roles=["A", "A"], shared=1, sched=[0, 1, 0, 1], ops=2))


# ------------------------------------------------------------------ (3)
def job_interleave(J, roles, shared, ops, scheds):
    q = 11
    n = len(roles)
    J.bounds.update(roles=roles, shared_params=shared, ops_per_session=ops, schedules=len(scheds))
    for sched in scheds:
        def h(ctx, sched=sched):
            setup_hash_axioms(ctx)
            P = loader.MODS["params"]
            base = P._Params(AbsGroup(q, tag="G"))
            plist = [base if shared else P._Params(AbsGroup(q, tag="G%d" % i)) for i in range(n)]
            W = base.group.element_size_bytes
            inputs = []
            for i in range(n):
                pw, idA, idB = sym_inputs((2, 1, 1), "s%d" % i)
                eb = SymBytes.fresh_chunk("s%dent" % i, base.group.scalar_size_bytes + 8)
                inbound = SymBytes([SIDE_BYTE[PEER[roles[i]]]]) + SymBytes.fresh_chunk("s%dbody" % i, W)
                inputs.append((pw, idA, idB, eb, inbound))

            def run(order):
                insts = [None] * n
                outs = [dict(msg=None, key=None, blob=None) for _ in range(n)]
                step = [0] * n
                for i in order:
                    pw, idA, idB, eb, inbound = inputs[i]
                    if insts[i] is None:
                        insts[i] = new_instance(roles[i], plist[i], pw, idA, idB, lambda k, eb=eb: eb)
                    k = step[i]
                    step[i] += 1
                    if k == 0:
                        outs[i]["msg"] = insts[i].start()
                    elif ops == 3 and k == 1:
                        outs[i]["blob"] = insts[i].serialize().obj
                        insts[i] = restore(roles[i], insts[i], plist[i])
                    else:
                        outs[i]["key"] = outcome(insts[i].finish, inbound)
                return outs
            iso = []
            for i in range(n):
                iso.append(run([i] * ops)[i])
            mixed = run(list(sched))
            ctx.data["w"] = dict(iso=iso, mixed=mixed)
            return True
        for r in J.explore(h, max_paths=400):
            if r.kind != "ret":
                J.claim(r, "schedule %s runs (%s)" % (sched, type(r.value).__name__), False,
                        cex=lambda m, sched=sched: dict(cls=roles[0], roles=roles, shared=shared, sched=list(sched), ops=ops), oracle="interleave", sample=False)
                continue
            w = r.ctx.data["w"]
            for i in range(n):
                J.claim(r, "schedule %s: session %d (%s) behaves as in isolation" % ("".join(map(str, sched)), i, roles[i]),
                        _eq_out(w["iso"][i], w["mixed"][i]),
                        cex=lambda m, sched=sched: dict(cls=roles[0], roles=roles, shared=shared, sched=list(sched), ops=ops),
                        oracle="interleave", sample=False)
    if scheds:
        J.samples.append(dict(schedule="".join(map(str, scheds[0])), roles=roles, meaning="digit = index of the session whose next call runs"))


# ------------------------------------------------------------------ oracle
def oracle_interleave(cls, roles, shared, sched, ops):
    """concrete interleaving on the real shipped objects (and threads) compared with isolated runs; shared objects unchanged"""
    import threading, copy
    from checks import common as C
    sp = C.S()
    K = {"A": sp.SPAKE2_A, "B": sp.SPAKE2_B, "S": sp.SPAKE2_Symmetric}
    names = ["Ed25519", "I1024", "toy11"]
    for base_nm in names:
        plist = [C.params_by_name(base_nm if shared else names[i % 3]) for i in range(len(roles))]

        def enc_state():
            out = []
            for p in plist:
                out.append((p.M.to_bytes(), p.N.to_bytes(), p.S.to_bytes(), p.group.Base.to_bytes(), p.group.Zero.to_bytes(),
                            sorted(p.__dict__), sorted(k for k in p.group.__dict__)))
            return out
        before = enc_state()
        cls_before = {k: sorted(v.__dict__) for k, v in K.items()}
        inputs = []
        for i, rl in enumerate(roles):
            pw = b"pw%d" % (i % 2 + 10)          # same length, different content
            peer = K[PEER[rl]](pw, params=plist[i], entropy_f=C.entropy_for_scalar(plist[i].group, 7 + i)) if rl == "S" else \
                K[PEER[rl]](pw, idA=b"a", idB=b"b", params=plist[i], entropy_f=C.entropy_for_scalar(plist[i].group, 7 + i))
            inputs.append((pw, peer.start()))

        def run(order):
            insts = [None] * len(roles)
            outs = [dict() for _ in roles]
            step = [0] * len(roles)
            for i in order:
                pw, inbound = inputs[i]
                rl = roles[i]
                if insts[i] is None:
                    e = C.entropy_for_scalar(plist[i].group, 3 + i)
                    insts[i] = K[rl](pw, params=plist[i], entropy_f=e) if rl == "S" else K[rl](pw, idA=b"a", idB=b"b", params=plist[i], entropy_f=e)
                k = step[i]
                step[i] += 1
                if k == 0:
                    outs[i]["msg"] = insts[i].start()
                elif ops == 3 and k == 1:
                    outs[i]["blob"] = insts[i].serialize()
                    insts[i] = K[rl].from_serialized(outs[i]["blob"], params=plist[i])
                else:
                    outs[i]["key"] = C.finish_outcome(insts[i], inbound)
            return outs
        iso = [run([i] * ops)[i] for i in range(len(roles))]
        scheds = [sched, list(reversed(sched)), sorted(sched), sorted(sched, reverse=True)]
        for sc in scheds:
            mixed = run(sc)
            for i in range(len(roles)):
                if mixed[i] != iso[i]:
                    return (True, "session %d (%s) on %s behaves differently under schedule %s than in isolation" % (i, roles[i], base_nm, sc))
        # threads: every session in its own thread, many rounds
        errs = []

        def worker(i):
            try:
                for _ in range(20):
                    if run([i] * ops)[i] != iso[i]:
                        errs.append(i)
            except Exception as e:
                errs.append(repr(e))
        ths = [threading.Thread(target=worker, args=(i,)) for i in range(len(roles))]
        [t.start() for t in ths]
        [t.join() for t in ths]
        if errs:
            return (True, "multi-threaded sessions on %s differ from isolated runs: %s" % (base_nm, errs[:3]))
        if enc_state() != before or {k: sorted(v.__dict__) for k, v in K.items()} != cls_before:
            return (True, "shared parameter/group/class objects changed on %s" % base_nm)
    from checks import matrix
    r = matrix.session_matrix()
    if r:
        return (True, r)
    return (False, "isolated")


ORACLES = dict(interleave=oracle_interleave)
