"""C15 -- number, scalar and element encodings are fixed-width bijections."""
import z3
from symx.core import Ctx, SymInt, SymBytes, SymBool, Flags, T, B, PathAbort, model_int
from symx import loader

PID = "C15"
TECHNIQUE = 'symbolic execution of the real codecs on z3 integers/byte vectors; z3 (LIA) decides width, endianness, inversion and the error condition for symbolic n and maxval'
LEVEL_NOTE = "models of '%0Nx', hexlify/unhexlify, int(.,16), int.bit_length; n >= 0"
EXPLANATION = (
    "Bounded symbolic execution of the repository's own util.size_bits/size_bytes/number_to_bytes/bytes_to_number, "
    "IntegerGroup.scalar_to_bytes/bytes_to_scalar/_element_to_bytes/bytes_to_element and ed25519_basic."
    "scalar_to_bytes/bytes_to_scalar/encodepoint on z3-backed proxy integers and byte strings (the source is "
    "re-imported from /repo on every run).  n, maxval, scalars, element values and inbound byte strings are solver "
    "variables; per path the solver decides (unsat of the negation) width, big/little-endian value, inversion and "
    "the ValueError condition.  Bounds: symbolic maxval up to the stated bit length (every bit length forked), the "
    "seven shipped moduli at full width with n unbounded.  sat models are replayed on the plain package."
)
TRUSTED = ["CPython int/bytes semantics as modelled by symx.env ('%0Nx' formatting, hexlify/unhexlify, int(.,16), "
           "int.bit_length, math.ceil of an exact small quotient)", "z3 5.1 LIA"]
ASSUMPTIONS = ["n >= 0 (the property quantifies over 0 <= n)",
               "integer-group membership pow(i,q,p)==1 is an abstract predicate Member(i) in this check (decided in C05/C13)",
               "Ed25519: two curve points with equal y have x2 in {x1, Q-x1} (a field has at most two square roots)"]


class _Groups(dict):
    def __missing__(self, name):
        from checks.realtier import custom_world
        self[name] = custom_world(name)[0]
        return self[name]


def _groups():
    G = loader.MODS["groups"]
    return _Groups({"I1024": G.I1024, "I2048": G.I2048, "I3072": G.I3072})


def jobs(tier):
    bl = 64 if tier == "quick" else 136
    js = [("job_sizes", dict(_name="sizes(bits<=%d)" % bl, maxbits=bl)),
          ("job_n2b_symbolic", dict(_name="n2b(maxval symbolic, bits<=%d)" % bl, maxbits=bl))]
    for nm in ("I1024.p", "I1024.q", "I2048.p", "I2048.q", "I3072.p", "I3072.q", "Ed25519.L"):
        js.append(("job_n2b_shipped", dict(_name="n2b(%s)" % nm, which=nm)))
    for g in ("I1024", "I2048", "I3072", "toy11", "toy257", "toy1019", "sp61", "big2052"):
        js.append(("job_int_scalar_codec", dict(_name="scalar codec %s" % g, gname=g)))
        js.append(("job_int_element_codec", dict(_name="element codec %s" % g, gname=g)))
    js.append(("job_ed_scalar_codec", dict(_name="scalar codec Ed25519")))
    js.append(("job_ed_encodepoint", dict(_name="encodepoint Ed25519")))
    js.append(("job_ed_to_bytes_repr", dict(_name="Ed25519 to_bytes is canonical on any (unreduced) representation with Z=1")))
    for g in ("Ed25519", "I1024", "toy1019"):
        js.append(("job_api_roundtrip", dict(_name="elements reached through the API round-trip and encode injectively: %s (ground)" % g, gname=g)))
    return js


def job_ed_to_bytes_repr(J):
    """the real ElementOfUnknownGroup.to_bytes (xform_extended_to_affine + encodepoint) on coordinates that are not
    reduced mod Q (negative, >= Q): the encoding is still the canonical one of (X mod Q, Y mod Q)"""
    E = loader.MODS["ed25519_basic"]
    Q = E.Q

    def h(ctx):
        X = SymInt(ctx.fresh("X", -2 * Q, 2 * Q))
        Y = SymInt(ctx.fresh("Y", -2 * Q, 2 * Q))
        ctx.data["xy"] = (X, Y)
        return E.ElementOfUnknownGroup((X, Y, 1, 0)).to_bytes()
    for r in J.explore(h):
        X, Y = r.ctx.data["xy"]
        J.reach(r)
        cex = lambda m: dict(group="Ed25519", a=1, b=2, c=3, n=1, m=1)
        if r.kind != "ret":
            J.claim(r, "to_bytes does not raise on an unreduced representation (%s)" % type(r.value).__name__, False, cex=cex, oracle="laws")
            continue
        b = SymBytes.of(r.value)
        J.claim(r, "to_bytes encodes (X mod Q, Y mod Q): little-endian y, top bit = parity of the reduced x",
                z3.And(len(b) == 32, b[::-1].value() == (Y.t % Q) + ((X.t % Q) % 2) * 2 ** 255), cex=cex, oracle="laws")


def job_api_roundtrip(J, gname):
    from checks.c13 import oracle_laws
    v, d = oracle_laws(gname, 1, 2, 3, 5, 7)
    J.ground("on %s every element reached through the API (scalarmult, add, decode, negate; several routes to the same "
             "element) decodes back from its encoding and distinct elements encode differently" % gname, not v, d,
             oracle="laws", args=dict(group=gname, a=1, b=2, c=3, n=5, m=7))


# ------------------------------------------------------------------ util
def job_sizes(J, maxbits):
    U = loader.MODS["util"]
    Flags.bitlen_bound = maxbits
    J.bounds.update(maxval_bits=maxbits)

    def h(ctx):
        mv = SymInt(ctx.fresh("maxval", 0))
        return mv, U.size_bits(mv), U.size_bytes(mv)
    for r in J.explore(h, max_paths=maxbits + 8):
        mv, bits, nbytes = r.value
        if not (isinstance(bits, int) and isinstance(nbytes, int)):
            J.claim(r, "size_bits/size_bytes concrete per bit-length path", False)
            continue
        J.reach(r)
        cex = lambda m, mv=mv: dict(maxval=model_int(m, mv))
        J.claim(r, "size_bits(maxval) is the bit length (1 for 0) [bits=%d]" % bits,
                z3.And(mv.t < 2 ** bits, z3.Or(mv.t >= 2 ** (bits - 1), z3.And(bits == 1, mv.t == 0))),
                cex=cex, oracle="sizes")
        J.claim(r, "size_bytes == ceil(bits/8) [bits=%d]" % bits, nbytes == (bits + 7) // 8, cex=cex, oracle="sizes")


def _n2b_claims(J, r, n, mv_term, mv_model):
    U = loader.MODS["util"]
    cex = lambda m: dict(n=model_int(m, n), maxval=mv_model(m))
    if r.kind == "exc":
        if isinstance(r.value, ValueError):
            J.claim(r, "ValueError only when n > maxval", n.t > mv_term, cex=cex, oracle="n2b")
        else:
            J.claim(r, "no exception other than ValueError (%s)" % type(r.value).__name__, False, cex=cex, oracle="n2b")
        return
    b, back, nbytes = r.value
    J.claim(r, "returns only when n <= maxval", n.t <= mv_term, cex=cex, oracle="n2b")
    J.claim(r, "exactly size_bytes(maxval) bytes", len(b) == nbytes, cex=cex, oracle="n2b")
    J.claim(r, "big-endian value of the bytes is n", SymBytes.of(b).value() == n.t, cex=cex, oracle="n2b")
    J.claim(r, "bytes_to_number inverts number_to_bytes", T(back) == n.t, cex=cex, oracle="n2b")


def job_n2b_symbolic(J, maxbits):
    U = loader.MODS["util"]
    Flags.bitlen_bound = maxbits
    J.bounds.update(maxval_bits=maxbits, n="0 <= n, unbounded")

    def h(ctx):
        mv = SymInt(ctx.fresh("maxval", 0))
        n = SymInt(ctx.fresh("n", 0))
        ctx.data["sym"] = (n, mv)
        nbytes = U.size_bytes(mv)
        b = U.number_to_bytes(n, mv)
        return b, U.bytes_to_number(b), nbytes
    for r in J.explore(h, max_paths=4 * maxbits + 16):
        n, mv = r.ctx.data["sym"]
        J.reach(r)
        _n2b_claims(J, r, n, mv.t, lambda m, mv=mv: model_int(m, mv))


def _shipped(which):
    gname, attr = which.split(".")
    if gname == "Ed25519":
        return loader.MODS["ed25519_basic"].L
    return getattr(_groups()[gname], attr)


def job_n2b_shipped(J, which):
    U = loader.MODS["util"]
    mv = _shipped(which)
    J.bounds.update(maxval="%s (%d bits, concrete)" % (which, mv.bit_length()), n="0 <= n, unbounded")

    def h(ctx):
        n = SymInt(ctx.fresh("n", 0))
        ctx.data["sym"] = n
        b = U.number_to_bytes(n, mv)
        return b, U.bytes_to_number(b), U.size_bytes(mv)
    for r in J.explore(h):
        n = r.ctx.data["sym"]
        J.reach(r)
        _n2b_claims(J, r, n, z3.IntVal(mv), lambda m: mv)
        if r.kind == "ret":
            J.claim(r, "width is ceil(bitlen/8) of the shipped modulus", r.value[2] == (mv.bit_length() + 7) // 8)


# ------------------------------------------------------------ scalar codecs
def job_int_scalar_codec(J, gname):
    g = _groups()[gname]
    q, w = g.q, (g.q.bit_length() + 7) // 8
    J.bounds.update(group=gname, scalar_bytes=w)

    def h1(ctx):        # encode then decode
        i = SymInt(ctx.fresh("i", 0, q - 1))
        ctx.data["sym"] = i
        b = g.scalar_to_bytes(i)
        return b, g.bytes_to_scalar(b)
    for r in J.explore(h1):
        i = r.ctx.data["sym"]
        J.reach(r)
        cex = lambda m, i=i: dict(group=gname, i=model_int(m, i))
        if r.kind != "ret":
            J.claim(r, "scalar_to_bytes/bytes_to_scalar never raise on [0,q) (%s)" % type(r.value).__name__, False,
                    cex=cex, oracle="int_scalar")
            continue
        b, back = r.value
        J.claim(r, "scalar_to_bytes gives scalar_size_bytes bytes", z3.And(len(b) == w, g.scalar_size_bytes == w),
                cex=cex, oracle="int_scalar")
        J.claim(r, "scalar encoding is big-endian", SymBytes.of(b).value() == i.t, cex=cex, oracle="int_scalar")
        J.claim(r, "bytes_to_scalar(scalar_to_bytes(i)) == i", T(back) == i.t, cex=cex, oracle="int_scalar")

    def h2(ctx):        # decode arbitrary bytes then encode
        b = SymBytes.fresh("sb", w)
        ctx.data["sym"] = b
        i = g.bytes_to_scalar(b)
        return i, g.scalar_to_bytes(i)
    for r in J.explore(h2):
        b = r.ctx.data["sym"]
        J.reach(r)
        cex = lambda m, b=b: dict(group=gname, b=b.model_bytes(m))
        if r.kind == "exc":
            # which exception type refuses an out-of-range string is not part of the property
            J.claim(r, "bytes_to_scalar refuses only values >= q (%s)" % type(r.value).__name__, b.value() >= q, cex=cex,
                    oracle="int_scalar_dec")
            continue
        i, bb = r.value
        J.claim(r, "decoded scalar is the big-endian value and < q", z3.And(T(i) == b.value(), T(i) < q),
                cex=cex, oracle="int_scalar_dec")
        J.claim(r, "scalar_to_bytes(bytes_to_scalar(b)) == b", SymBytes.of(bb).eq_term(b), cex=cex, oracle="int_scalar_dec")


def job_ed_scalar_codec(J):
    E = loader.MODS["ed25519_basic"]
    L = E.L
    J.bounds.update(group="Ed25519", scalar_bytes=32)

    def h1(ctx):
        i = SymInt(ctx.fresh("i", 0, L - 1))
        ctx.data["sym"] = i
        b = E.scalar_to_bytes(i)
        return b, E.bytes_to_scalar(b)
    for r in J.explore(h1):
        i = r.ctx.data["sym"]
        J.reach(r)
        cex = lambda m, i=i: dict(i=model_int(m, i))
        if r.kind != "ret":
            J.claim(r, "Ed25519 scalar codec never raises on [0,L) (%s)" % type(r.value).__name__, False,
                    cex=cex, oracle="ed_scalar")
            continue
        b, back = r.value
        b = SymBytes.of(b)
        J.claim(r, "32 bytes", len(b) == 32, cex=cex, oracle="ed_scalar")
        J.claim(r, "little-endian", b[::-1].value() == i.t, cex=cex, oracle="ed_scalar")
        J.claim(r, "bytes_to_scalar(scalar_to_bytes(i)) == i", T(back) == i.t, cex=cex, oracle="ed_scalar")

    def h2(ctx):
        b = SymBytes.fresh("sb", 32)
        ctx.assume(b[::-1].value() < L)
        ctx.data["sym"] = b
        i = E.bytes_to_scalar(b)
        return i, E.scalar_to_bytes(i)
    for r in J.explore(h2):
        b = r.ctx.data["sym"]
        J.reach(r)
        cex = lambda m, b=b: dict(b=b.model_bytes(m))
        if r.kind != "ret":
            J.claim(r, "no exception decoding a canonical scalar (%s)" % type(r.value).__name__, False,
                    cex=cex, oracle="ed_scalar_dec")
            continue
        i, bb = r.value
        J.claim(r, "decoded value is little-endian", T(i) == b[::-1].value(), cex=cex, oracle="ed_scalar_dec")
        # equal width and equal little-endian value <=> equal strings (positional notation is injective)
        bb = SymBytes.of(bb)
        J.claim(r, "scalar_to_bytes(bytes_to_scalar(b)) == b for canonical b",
                z3.And(len(bb) == 32, bb[::-1].value() == b[::-1].value()), cex=cex, oracle="ed_scalar_dec")

    # wrong lengths are refused
    for n in (0, 31, 33):
        def h3(ctx, n=n):
            return E.bytes_to_scalar(SymBytes.fresh("sb", n))
        for r in J.explore(h3):
            J.claim(r, "bytes_to_scalar refuses %d bytes" % n, r.kind == "exc",
                    cex=lambda m, n=n: dict(b=bytes(n)), oracle="ed_scalar_len")


# ----------------------------------------------------------- element codecs
MEMBER = z3.Function("Member", z3.IntSort(), z3.BoolSort())


def member_pow_stub(p, q):
    """Z-domain contract of pow for the membership test: pow(i, q, p) is 1 iff Member(i)"""
    def stub(b, e, m):
        c = Ctx.cur
        if isinstance(e, int) and e == q and isinstance(m, int) and m == p and isinstance(b, SymInt):
            if SymBool(MEMBER(b.t)):
                return 1
            r = c.fresh("pow_nonmember", 0, p - 1)
            c.side.append(r != 1)
            return SymInt(r)
        from symx.core import EngineUnsupported
        raise EngineUnsupported("pow outside the membership shape")
    return stub


def job_int_element_codec(J, gname):
    G = loader.MODS["groups"]
    g = _groups()[gname]
    p, q, W = g.p, g.q, (g.p.bit_length() + 7) // 8
    Flags.pow_stub = member_pow_stub(p, q)
    J.bounds.update(group=gname, element_bytes=W)

    def h1(ctx):        # encode a member then decode
        v = SymInt(ctx.fresh("e", 1, p - 1))
        ctx.assume(MEMBER(v.t))
        ctx.data["sym"] = v
        e = G._Element(g, v)
        b = e.to_bytes()
        return b, g.bytes_to_element(b)
    pc = dict(cex=lambda m: dict(group=gname, extra=[]), oracle="pool")
    for r in J.explore(h1):
        v = r.ctx.data["sym"]
        J.reach(r)
        if r.kind != "ret":
            J.claim(r, "to_bytes/bytes_to_element never raise on members (%s)" % type(r.value).__name__, False, **pc)
            continue
        b, back = r.value
        J.claim(r, "element_size_bytes bytes", z3.And(len(b) == W, g.element_size_bytes == W), **pc)
        J.claim(r, "element encoding is the big-endian value", SymBytes.of(b).value() == v.t, **pc)
        J.claim(r, "bytes_to_element(to_bytes(e)) has the same value", T(back._e) == v.t, **pc)
        J.claim(r, "decoded object is an element of this group", isinstance(back, G._Element) and back._group is g, **pc)

    def h2(ctx):        # distinct elements, distinct encodings
        v1 = SymInt(ctx.fresh("e1", 1, p - 1))
        v2 = SymInt(ctx.fresh("e2", 1, p - 1))
        ctx.assume(v1.t != v2.t)
        return G._Element(g, v1).to_bytes(), G._Element(g, v2).to_bytes()
    for r in J.explore(h2):
        J.reach(r)
        if r.kind != "ret":
            J.claim(r, "to_bytes never raises on field elements", False, **pc)
            continue
        J.claim(r, "distinct elements have distinct encodings", z3.Not(SymBytes.of(r.value[0]).eq_term(r.value[1])), **pc)

    def h3(ctx):        # decode arbitrary W bytes then encode
        b = SymBytes.fresh_chunk("eb", W)
        ctx.data["sym"] = b
        e = g.bytes_to_element(b)
        return e, e.to_bytes()
    for r in J.explore(h3):
        b = r.ctx.data["sym"]
        J.reach(r)
        pcb = dict(cex=lambda m, b=b: dict(group=gname, extra=[b.model_bytes(m)]), oracle="pool")
        if r.kind == "exc":
            J.claim(r, "refused only if out of range or not a member (%s)" % type(r.value).__name__,
                    z3.And(isinstance(r.value, ValueError),
                           z3.Or(b.value() <= 0, b.value() >= p, z3.Not(MEMBER(b.value())))), **pcb)
            continue
        e, bb = r.value
        J.claim(r, "accepted => in range and member", z3.And(b.value() > 0, b.value() < p, MEMBER(b.value())), **pcb)
        J.claim(r, "accepted string re-encodes to itself", SymBytes.of(bb).eq_term(b), **pcb)
    Flags.pow_stub = None


def job_ed_encodepoint(J):
    E = loader.MODS["ed25519_basic"]
    Q = E.Q
    J.bounds.update(group="Ed25519", element_bytes=32)

    def h(ctx):
        x = SymInt(ctx.fresh("x", 0, Q - 1))
        y = SymInt(ctx.fresh("y", 0, Q - 1))
        x2 = SymInt(ctx.fresh("x2", 0, Q - 1))
        y2 = SymInt(ctx.fresh("y2", 0, Q - 1))
        ctx.data["sym"] = (x, y, x2, y2)
        return E.encodepoint([x, y]), E.encodepoint([x2, y2])
    for r in J.explore(h):
        x, y, x2, y2 = r.ctx.data["sym"]
        J.reach(r)
        cex = lambda m: dict(x=model_int(m, x), y=model_int(m, y), x2=model_int(m, x2), y2=model_int(m, y2))
        if r.kind != "ret":
            J.claim(r, "encodepoint never raises on reduced coordinates", False, cex=cex, oracle="ed_encodepoint")
            continue
        b1, b2 = SymBytes.of(r.value[0]), SymBytes.of(r.value[1])
        J.claim(r, "32 bytes", z3.And(len(b1) == 32, len(b2) == 32), cex=cex, oracle="ed_encodepoint")
        J.claim(r, "little-endian y in bits 0..254, bit 255 = x&1",
                b1[::-1].value() == y.t + (x.t % 2) * 2 ** 255, cex=cex, oracle="ed_encodepoint")
        # same y forces x2 in {x, Q-x} on the curve: then equal encodings force equal points
        J.claim(r, "distinct curve points have distinct encodings",
                z3.Implies(z3.And(b1.eq_term(b2), z3.Implies(y.t == y2.t, z3.Or(x2.t == x.t, x2.t == Q - x.t))),
                           z3.And(x.t == x2.t, y.t == y2.t)), cex=None)


# ------------------------------------------------------------------ oracles
def _ref_size_bits(m):
    return m.bit_length() or 1


def oracle_sizes(maxval):
    from spake2 import util
    bits, nb = util.size_bits(maxval), util.size_bytes(maxval)
    ok = bits == _ref_size_bits(maxval) and nb == (bits + 7) // 8
    return (not ok, "size_bits(%d)=%r size_bytes=%r" % (maxval, bits, nb))


def oracle_n2b(n, maxval):
    from spake2 import util
    w = (_ref_size_bits(maxval) + 7) // 8
    try:
        b = util.number_to_bytes(n, maxval)
    except ValueError:
        return (not (n > maxval), "ValueError for n=%d maxval=%d" % (n, maxval))
    except Exception as e:
        return (True, "%s for n=%d maxval=%d" % (type(e).__name__, n, maxval))
    if n > maxval:
        return (True, "n=%d > maxval=%d accepted" % (n, maxval))
    ok = b == n.to_bytes(w, "big") and util.bytes_to_number(b) == n
    return (not ok, "number_to_bytes(%d,%d)=%s" % (n, maxval, b.hex()))


def _g(name):
    from spake2 import groups
    from checks import common as C
    return getattr(groups, name) if hasattr(groups, name) else C.toy_group(name)


def oracle_int_scalar(group, i):
    g = _g(group)
    w = (g.q.bit_length() + 7) // 8
    try:
        b = g.scalar_to_bytes(i)
        ok = b == i.to_bytes(w, "big") and g.bytes_to_scalar(b) == i and g.scalar_size_bytes == w
    except Exception as e:
        return (True, "%s on scalar %d" % (type(e).__name__, i))
    return (not ok, "scalar_to_bytes(%d)=%s" % (i, b.hex()))


def oracle_int_scalar_dec(group, b):
    g = _g(group)
    v = int.from_bytes(b, "big")
    try:
        i = g.bytes_to_scalar(b)
    except Exception as e:
        return (v < g.q, "bytes_to_scalar refused %s (%s), a scalar below q" % (b.hex()[:60], type(e).__name__))
    ok = i == v and v < g.q and g.scalar_to_bytes(i) == b
    return (not ok, "bytes_to_scalar(%s)=%r" % (b.hex(), i))


def oracle_ed_scalar(i):
    from spake2 import ed25519_basic as E
    try:
        b = E.scalar_to_bytes(i)
        ok = b == i.to_bytes(32, "little") and E.bytes_to_scalar(b) == i
    except Exception as e:
        return (True, type(e).__name__)
    return (not ok, "scalar_to_bytes(%d)=%s" % (i, b.hex()))


def oracle_ed_scalar_dec(b):
    from spake2 import ed25519_basic as E
    try:
        i = E.bytes_to_scalar(b)
        ok = i == int.from_bytes(b, "little") and (i >= E.L or E.scalar_to_bytes(i) == b)
    except Exception as e:
        return (True, type(e).__name__)
    return (not ok, "bytes_to_scalar(%s)=%r" % (b.hex(), i))


def oracle_ed_scalar_len(b):
    from spake2 import ed25519_basic as E
    try:
        E.bytes_to_scalar(b)
    except AssertionError:
        return (False, "refused")
    except Exception as e:
        return (False, "refused with %s" % type(e).__name__)
    return (True, "bytes_to_scalar accepted %d bytes" % len(b))


def oracle_ed_encodepoint(x, y, x2, y2):
    from spake2 import ed25519_basic as E
    for (a, b) in ((x, y), (x2, y2)):
        try:
            s = E.encodepoint([a, b])
        except Exception as e:
            return (True, "encodepoint raised %s" % type(e).__name__)
        if s != (b + ((a & 1) << 255)).to_bytes(32, "little"):
            return (True, "encodepoint(%d,%d)=%s" % (a, b, s.hex()))
    return (False, "ok")


from checks.pools import oracle_pool


def _oracle_laws(**kw):
    from checks.c13 import oracle_laws
    return oracle_laws(**kw)


ORACLES = dict(laws=_oracle_laws, pool=oracle_pool, sizes=oracle_sizes, n2b=oracle_n2b, int_scalar=oracle_int_scalar, int_scalar_dec=oracle_int_scalar_dec,
               ed_scalar=oracle_ed_scalar, ed_scalar_dec=oracle_ed_scalar_dec, ed_scalar_len=oracle_ed_scalar_len,
               ed_encodepoint=oracle_ed_encodepoint)
