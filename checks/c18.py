"""C18 -- shipped parameter sets are sound prime-order groups as published."""
import z3
from symx.core import Ctx, SymInt, SymBytes, SymBool, Flags, T, B, EngineUnsupported, model_int
from symx import loader
from checks import published_constants as PC

PID = "C18"
TECHNIQUE = 'ground obligations computed through the real code (order, membership, distinctness, point of order 8L + Hasse interval, published constants) and a symbolic run of the IntegerGroup constructor with pow uninterpreted'
LEVEL_NOTE = 'primality of p, q, Q, L is trusted as published (Miller-Rabin only); constructor run bounded to small bit lengths'
EXPLANATION = (
    "Mostly ground facts about four constant sets (there is no input to quantify over). (1) The constants in the source "
    "(p, q, g; Q, L, d, base point; M, N, S) equal the published values pinned in checks/published_constants.py "
    "(regenerated from the source under test on every run). (2) Ground arithmetic facts evaluated through the real "
    "code: q | p-1, g^q = 1, g != 1, hence ord(g) = q for prime q; [L]B = 0 through the real "
    "scalarmult_element_safe_slow, B != 0, base point = RFC 8032's; a point of order 8L exists and 8L is the only "
    "multiple of 8L in the Hasse interval around Q+1, hence #E = 8L; M, N, S pairwise distinct, not the identity, not "
    "the generator, members of the subgroup; DefaultParams is ParamsEd25519. Primality of p, q, Q, L is NOT established "
    "by a solver: a Miller-Rabin run (24 bases) is reported as a ground fact and the published values are trusted. "
    "(3) The one quantified clause -- the constructor accepts only generators whose order divides q -- by a symbolic "
    "run of the real IntegerGroup.__init__ with symbolic (p, q, g) within the stated bit lengths and pow as an "
    "uninterpreted function: every path that returns an object has pow(g, q, p) == 1 in its path condition."
)
TRUSTED = ["primality of the published p, q, Q, L (Miller-Rabin only)", "Hasse's theorem; Lagrange's theorem"]
ASSUMPTIONS = ["constructor run: q < 2^12, p < 2^16 (bit lengths forked), -2p <= g <= 2p"]


def jobs(tier):
    js = [("job_constants", dict(_name="constants as published (ground)")),
          ("job_arith", dict(_name="ground arithmetic facts through the real code")),
          ("job_constructor", dict(_name="IntegerGroup constructor accepts only generators with g^q = 1",
                                   qbits=10 if tier == "quick" else 16, pbits=14 if tier == "quick" else 24))]
    return js


def job_constants(J):
    from checks.c03 import job_constants as c03_constants
    c03_constants(J)
    S = loader.MODS["spake2"]
    J.ground("DefaultParams is ParamsEd25519", S.DefaultParams is loader.MODS["parameters.ed25519"].ParamsEd25519,
             oracle="facts", args={})
    allm = loader.MODS["parameters.all"]
    J.ground("parameters.all exports the four shipped sets",
             allm.ParamsEd25519 is loader.MODS["parameters.ed25519"].ParamsEd25519 and allm.Params1024 is loader.MODS["parameters.i1024"].Params1024
             and allm.Params2048 is loader.MODS["parameters.i2048"].Params2048 and allm.Params3072 is loader.MODS["parameters.i3072"].Params3072,
             oracle="facts", args={})


def job_arith(J):
    v, d = facts(loader.MODS)
    for name, ok in d:
        J.ground(name, ok, oracle="facts", args={})


def facts(M):
    """list of (fact, bool) computed through the given modules (instrumented copy or plain package)"""
    from checks import refimpl as R
    G, E = M["groups"], M["ed25519_basic"]
    out = []
    sets = {"I1024": (G.I1024, M["parameters.i1024"].Params1024), "I2048": (G.I2048, M["parameters.i2048"].Params2048),
            "I3072": (G.I3072, M["parameters.i3072"].Params3072)}
    for nm, (g, P) in sets.items():
        p, q, gg = g.p, g.q, g.Base._e
        out.append(("%s: q divides p-1" % nm, (p - 1) % q == 0))
        out.append(("%s: g^q = 1 mod p and g != 1 (so ord(g) = q for prime q)" % nm, pow(gg, q, p) == 1 and gg % p != 1 and 1 < gg < p))
        out.append(("%s: p and q pass Miller-Rabin (24 bases) [primality itself is trusted as published]" % nm,
                    R.is_probable_prime(p) and R.is_probable_prime(q)))
        out.append(("%s: Zero is the identity 1" % nm, g.Zero._e == 1))
        vals = [P.M._e, P.N._e, P.S._e]
        out.append(("%s: M, N, S pairwise distinct, != identity, != generator" % nm,
                    len(set(vals)) == 3 and 1 not in vals and gg not in vals))
        out.append(("%s: M, N, S are members of the order-q subgroup" % nm, all(0 < v < p and pow(v, q, p) == 1 for v in vals)))
    Q, L = E.Q, E.L
    out.append(("Ed25519: Q = 2^255-19 and L pass Miller-Rabin [primality trusted as published]", R.is_probable_prime(Q) and R.is_probable_prime(L)))
    zero = E.xform_affine_to_extended((0, 1))
    LB = E.scalarmult_element_safe_slow(E.Base.XYTZ, L)
    out.append(("Ed25519: [L]B = 0 through the real scalarmult_element_safe_slow, B != 0, B on the curve",
                E.is_extended_zero(LB) and not E.is_extended_zero(E.Base.XYTZ) and E.isoncurve(E.B)))
    out.append(("Ed25519: base point is the RFC 8032 base point (y = 4/5, x even... encoding 5866..66)",
                E.Base.to_bytes().hex() == PC.ED25519["base_hex"] and (E.B[1] * 5 - 4) % Q == 0))
    # a point of order 8L: P with [4L]P != 0 and [8L]P = 0
    y, P8L = 2, None
    while P8L is None and y < 200:
        x = E.xrecover(y)
        if E.isoncurve([x, y]):
            pt = E.xform_affine_to_extended((x, y))
            if not E.is_extended_zero(E.scalarmult_element_safe_slow(pt, 4 * L)) and \
                    E.is_extended_zero(E.scalarmult_element_safe_slow(pt, 8 * L)) and \
                    not E.is_extended_zero(E.scalarmult_element_safe_slow(pt, 8 * ((L - 1) // 2))):
                P8L = (x, y)
        y += 1
    out.append(("Ed25519: a curve point of order 8L exists (found at y=%s), so 8L divides #E" % (P8L[1] if P8L else None), P8L is not None))
    import math
    lo, hi = Q + 1 - 2 * math.isqrt(Q) - 2, Q + 1 + 2 * math.isqrt(Q) + 2
    mult = [k for k in range(lo // (8 * L), hi // (8 * L) + 1) if lo <= k * 8 * L <= hi]
    out.append(("Ed25519: 8L is the only multiple of 8L in the Hasse interval around Q+1, hence #E = 8L", mult == [1]))
    P = M["parameters.ed25519"].ParamsEd25519
    encs = [P.M.to_bytes(), P.N.to_bytes(), P.S.to_bytes()]
    out.append(("Ed25519: M, N, S pairwise distinct, != identity, != base point",
                len(set(encs)) == 3 and E.Zero.to_bytes() not in encs and E.Base.to_bytes() not in encs))
    out.append(("Ed25519: M, N, S are Elements of order L ([L]P = 0 through the real code, P != 0)",
                all(isinstance(e, E.Element) and E.is_extended_zero(E.scalarmult_element_safe_slow(e.XYTZ, L))
                    and not E.is_extended_zero(e.XYTZ) for e in (P.M, P.N, P.S))))
    out.append(("Ed25519: d is a non-square, -1 is a square (complete addition law)",
                pow(E.d % Q, (Q - 1) // 2, Q) == Q - 1 and (E.I * E.I + 1) % Q == 0))
    return (not all(ok for _, ok in out)), out


def job_constructor(J, qbits, pbits):
    G = loader.MODS["groups"]
    POW = z3.Function("POW", z3.IntSort(), z3.IntSort(), z3.IntSort(), z3.IntSort())
    J.bounds.update(q_bits=qbits, p_bits=pbits)
    Flags.bitlen_bound = max(qbits, pbits)

    def stub(b, e, m):
        c = Ctx.cur
        c.table("pow").append((b, e, m))
        v = POW(T(b), T(e), T(m))
        return SymInt(v)

    def h(ctx):
        Flags.pow_stub = stub
        p = SymInt(ctx.fresh("p", 3, 2 ** pbits - 1))
        q = SymInt(ctx.fresh("q", 2, 2 ** qbits - 1))
        g = SymInt(ctx.fresh("g"))          # any integer: zero, negative and unreduced generators included
        ctx.assume(z3.And(g.t >= -2 * p.t, g.t <= 2 * p.t))
        ctx.data["pqg"] = (p, q, g)
        return G.IntegerGroup(p=p, q=q, g=g)
    for r in J.explore(h, max_paths=qbits * pbits * 4 + 50):
        p, q, g = r.ctx.data["pqg"]
        J.reach(r)
        cex = lambda m: dict(p=model_int(m, p, 23), q=model_int(m, q, 11), g=model_int(m, g, 3))
        if r.kind != "ret":
            continue
        J.claim(r, "a constructed group satisfies pow(g, q, p) == 1 (the order of g divides q)",
                POW(g.t, q.t, p.t) == 1, cex=cex, oracle="constructor")
        grp = r.value
        J.claim(r, "the constructed group records p, q and Base = g, Zero = 1",
                z3.And(T(grp.p) == p.t, T(grp.q) == q.t, T(grp.Base._e) == g.t, T(grp.Zero._e) == 1), cex=cex, oracle="constructor")
    Flags.pow_stub = None


# ------------------------------------------------------------------ oracles
def oracle_facts():
    import importlib
    M = {}
    for n in ("groups", "ed25519_basic", "parameters.ed25519", "parameters.i1024", "parameters.i2048", "parameters.i3072"):
        M[n] = importlib.import_module("spake2." + n)
    v, d = facts(M)
    bad = [name for name, ok in d if not ok]
    from checks.c03 import oracle_constants
    v2, d2 = oracle_constants()
    if v2:
        bad.append(d2)
    from spake2 import spake2 as S
    from spake2.parameters.ed25519 import ParamsEd25519
    if S.DefaultParams is not ParamsEd25519:
        bad.append("DefaultParams is not ParamsEd25519")
    return (bool(bad), "; ".join(bad) if bad else "all facts hold")


def oracle_constructor(p, q, g):
    from spake2.groups import IntegerGroup
    cands = [(p, q, g), (23, 11, 3), (23, 11, 5), (23, 11, 22), (2039, 1019, 3), (23, 11, 1), (47, 23, 5)]
    # every generator argument from -p to 2p for small moduli (prime and composite q), then zero / unreduced / negative
    # generators for the shipped moduli
    for (pp, qq) in ((23, 11), (7, 3), (11, 5), (13, 6), (13, 4), (47, 23), (31, 15)):
        cands += [(pp, qq, gg) for gg in range(-pp, 2 * pp + 1)]
    from spake2 import groups as _G
    for grp in (_G.I1024, _G.I2048, _G.I3072):
        cands += [(grp.p, grp.q, gg) for gg in (0, grp.p, -1, grp.p - 1, 2, grp.p + 2)]
    for (pp, qq, gg) in cands:
        try:
            IntegerGroup(p=pp, q=qq, g=gg)
        except AssertionError:
            continue
        except Exception:
            continue
        if pow(gg, qq, pp) != 1:
            return (True, "IntegerGroup(p=%d, q=%d, g=%d) accepted although g^q != 1 mod p" % (pp, qq, gg))
    return (False, "constructor refuses generators whose order does not divide q")


ORACLES = dict(facts=oracle_facts, constructor=oracle_constructor, constants=None)
from checks.c03 import oracle_constants as _oc
ORACLES["constants"] = _oc
