"""C02 -- any mismatch or in-flight tampering prevents agreement on a key."""
import z3
from symx.core import Ctx, SymInt, SymBytes, SymBool, T, B, model_int
from symx import loader, env
from symx.absgroup import AbsGroup, norm
from symx.proto import (Entropy, setup_hash_axioms, outcome, okind, orders, klass, PEER, SIDE_BYTE, msg_log)

PID = "C02"
TECHNIQUE = "symbolic execution with independent inputs on both ends and arbitrary delivered byte strings; z3 (LIA+UF, no-collision and injectivity axioms) decides 'equal keys => equal views'; polynomial identity for log K_A - log K_B"
LEVEL_NOTE = "no collisions among the <= 8 SHA-256 applications of a query; Euclid's lemma for prime q; strict decoding of the real groups (jobs shared with C05); known findings F6, F6b are scalar coincidences of probability 1/q"
EXPLANATION = (
    "The real SPAKE2_A x SPAKE2_B and SPAKE2_Symmetric x SPAKE2_Symmetric run with INDEPENDENT symbolic (password, idA, "
    "idB / idS) on the two ends, parameter sets that may differ in M, N, S (different subgroup elements) or in the "
    "generator, and delivered messages that are arbitrary symbolic byte strings of lengths {0, 1, W, W+1, W+2} unrelated "
    "to what was sent (this subsumes bit flips, truncation, extension, re-encoding and substitution). Step 1 (linear "
    "arithmetic + uninterpreted SHA-256 with no collisions among the <= 8 applications, injective fixed-width element "
    "encoding): on every path where both finish() return, equal keys imply equal passwords, equal identities and that "
    "each delivered message equals the sent one byte for byte, and equal encodings of the shared element K. Step 2 "
    "(polynomial identity on the discrete-log normal forms produced by the real code): log K_A - log K_B = "
    "w*(x*(n'-n) - y*(m-m')) (asymmetric), w*(s'-s)*(x1+x2) (symmetric), x*y*(gamma-1) (other generator). Step 3 (q "
    "prime, injective encoding): equal keys therefore force q | that product: the blinding elements agree unless a "
    "scalar coincidence of probability 1/q holds (known finding F6: e.g. a zero secret scalar makes K the identity "
    "independently of M/N/S). A ground job replays a pool of in-flight modifications on every shipped set."
)
TRUSTED = ["abstract group contract GC incl. strict fixed-length canonical decoding (C05 for the real groups)",
           "SHA-256 uninterpreted, no collisions among the applications of the query", "Euclid's lemma for the prime q"]
ASSUMPTIONS = ["delivered lengths {0,1,W,W+1,W+2}; one arbitrary substitution per direction, both directions at once"]


def jobs(tier):
    js = []
    qs = ["11"] if tier == "quick" else ["11", "L", "q1024"]
    for qn in qs:
        for fl in ("AB", "SS"):
            variants = ("same", "M", "N", "MN", "gen") if fl == "AB" else ("same", "S", "gen")
            if qn == "L":
                variants = ("same", "M", "N") if fl == "AB" else ("same", "S")      # nonlinear mod a 252-bit prime: costly
            elif qn != "11":
                variants = ("same",)
            for variant in variants:
                lens = [("W", "W")] if variant != "same" else [("W", "W"), ("W+1", "W"), ("W", "W+2"), ("0", "W"), ("1", "1"), ("W-1", "W")]
                for (la, lb) in lens:
                    sers = [(0, 0), (1, 0), (0, 1)] if (variant == "same" and (la, lb) == ("W", "W")) else [(0, 0)]
                    if tier != "quick" and variant == "same" and (la, lb) == ("W", "W"):
                        sers = [(0, 0), (1, 0), (0, 1), (1, 1)]
                    for ser in sers:
                        js.append(("job_tamper", dict(_name="q=%s %s params=%s delivered=(%s,%s) restored=%d%d" % (qn, fl, variant, la, lb, ser[0], ser[1]),
                                                      qn=qn, fl=fl, variant=variant, la=la, lb=lb, ser=ser)))
    js.append(("job_pool_ground", dict(_name="in-flight modification pool on the shipped sets (ground)")))
    # GC3 for the real groups is part of this property: raw inbound bytes enter the transcript, so every element must
    # have exactly one accepted byte string (jobs shared with C05)
    for g in ("I1024", "I2048", "I3072"):
        js.append(("job_int_lengths", dict(_name="real %s: only W-byte strings decode" % g, gname=g)))
        js.append(("job_int_element_codec", dict(_name="real %s: accepted strings re-encode to themselves" % g, gname=g)))
    for n in (31, 32, 33):
        js.append(("job_ed_decode", dict(_name="real Ed25519 decode len=%d" % n, n=n)))
    return js


def _len(spec, W):
    return {"W": W + 1, "W+1": W + 2, "W+2": W + 3, "W-1": W, "0": 0, "1": 1}[spec]     # incl. side byte


def job_tamper(J, qn, fl, variant, la, lb, ser=(0, 0)):
    q = orders()[qn]
    P = loader.MODS["params"]
    J.bounds.update(q=qn, flavour=fl, params_variant=variant, delivered=(la, lb), lens=dict(pw=2, ids=1))

    def h(ctx):
        setup_hash_axioms(ctx)
        g = AbsGroup(q, tag="G")
        p1 = P._Params(g)
        if variant == "same":
            p2 = P._Params(g)
        elif variant == "gen":
            gamma = ctx.fresh("gamma", 1, q - 1)
            g2 = AbsGroup(q, tag="G", base_log=gamma)
            p2 = P._Params(g2)
        else:
            kw = {}
            if "M" in variant:
                kw["M"] = b"M2"
            if "N" in variant:
                kw["N"] = b"N2"
            if "S" in variant:
                kw["S"] = b"symmetric2"
            p2 = P._Params(g, **kw)
        W = g.element_size_bytes
        pw, pw2 = SymBytes.fresh("pw", 2), SymBytes.fresh("pw2", 2)
        idA, idA2 = SymBytes.fresh("idA", 1), SymBytes.fresh("idA2", 1)
        idB, idB2 = SymBytes.fresh("idB", 1), SymBytes.fresh("idB2", 1)
        eA, eB = Entropy("entA"), Entropy("entB")
        if fl == "AB":
            a = klass("A")(pw, idA=idA, idB=idB, params=p1, entropy_f=eA)
            b = klass("B")(pw2, idA=idA2, idB=idB2, params=p2, entropy_f=eB)
        else:
            a = klass("S")(pw, idSymmetric=idA, params=p1, entropy_f=eA)
            b = klass("S")(pw2, idSymmetric=idA2, params=p2, entropy_f=eB)
        mA, mB = SymBytes.of(a.start()), SymBytes.of(b.start())
        if ser[0]:      # either end may have been persisted and revived between start() and finish()
            a = type(a).from_serialized(a.serialize(), params=p1)
        if ser[1]:
            b = type(b).from_serialized(b.serialize(), params=p2)
        dA = SymBytes.fresh("toA_side", 1) + SymBytes.fresh_chunk("toA", _len(la, W) - 1) if _len(la, W) else SymBytes([])
        dB = SymBytes.fresh("toB_side", 1) + SymBytes.fresh_chunk("toB", _len(lb, W) - 1) if _len(lb, W) else SymBytes([])
        if ser != (0, 0):
            dA, dB = mB, mA       # restore variants: honest delivery, independent passwords/identities on the two ends
        w = dict(a=a, b=b, mA=mA, mB=mB, dA=dA, dB=dB, pw=pw, pw2=pw2, idA=idA, idA2=idA2, idB=idB, idB2=idB2, p1=p1, p2=p2, g=g)
        ctx.data["w"] = w
        w["oA"] = outcome(a.finish, dA)
        w["oB"] = outcome(b.finish, dB)
        return okind(w["oA"]), okind(w["oB"])

    for r in J.explore(h, max_paths=300):
        w = r.ctx.data.get("w")
        J.reach(r)
        cex = lambda m, w=w: dict(_cex(w, m, fl, variant, q), ser=list(ser))
        if r.kind != "ret":
            J.claim(r, "sessions start (%s)" % type(r.value).__name__, False, cex=cex, oracle="tamper")
            continue
        if r.value != ("key", "key"):
            J.claim(r, "not both keys (%s/%s): nothing to agree on" % r.value, True, sample=False)
            continue
        kA, kB = SymBytes.of(w["oA"][1]), SymBytes.of(w["oB"][1])
        keq = kA.eq_term(kB)
        ids = z3.And(w["idA"].eq_term(w["idA2"]), w["idB"].eq_term(w["idB2"])) if fl == "AB" else w["idA"].eq_term(w["idA2"])
        view = z3.And(w["pw"].eq_term(w["pw2"]), ids, w["dA"].eq_term(w["mB"]), w["dB"].eq_term(w["mA"]))
        if fl == "AB":
            J.claim(r, "step 1: equal keys => equal passwords, equal identities, both messages delivered exactly as sent",
                    z3.Implies(keq, view), cex=cex, oracle="tamper")
        else:
            # symmetric transcripts sort the two messages: besides the honest pairing there is the degenerate one where
            # both ends SENT the same blinded element (x1 = x2, probability 1/q) and RECEIVED the same substitute
            twin = z3.And(w["pw"].eq_term(w["pw2"]), ids, w["mA"].eq_term(w["mB"]), w["dA"].eq_term(w["dB"]))
            J.claim(r, "step 1: equal keys => equal passwords and identities, and the messages were delivered as sent or "
                       "both ends sent one and the same element and received one and the same substitute",
                    z3.Implies(keq, z3.Or(view, twin)), cex=cex, oracle="tamper")
            J.claim(r, "step 1 (strict): equal keys => both messages delivered exactly as sent",
                    z3.Implies(keq, view), cex=lambda m, w=w: dict(_cex(w, m, fl, variant, q), twin=True), oracle="tamper")
        # step 2/3 on the honest-delivery paths: the real code's K logs
        a, b = w["a"], w["b"]
        g = w["g"]
        encs = r.ctx.table(g.enc_key)
        x, y = T(a.xy_scalar), T(b.xy_scalar)
        wa, wb = T(a.pw_scalar), T(b.pw_scalar)
        if fl == "AB":
            KA = norm((msg_log(b) - wa * w["p1"].N.log) * x)
            KB = norm((msg_log(a) - wb * w["p2"].M.log) * y)
            dN = w["p2"].N.log - w["p1"].N.log
            dM = w["p1"].M.log - w["p2"].M.log
            gam = w["p2"].group.Base.log
            expected = wa * (x * dN - y * dM) + x * y * (gam - 1)
            label = "w*(x*(n'-n) - y*(m-m')) + x*y*(gamma-1)"
        else:
            KA = norm((msg_log(b) - wa * w["p1"].S.log) * x)
            KB = norm((msg_log(a) - wb * w["p2"].S.log) * y)
            dS = w["p2"].S.log - w["p1"].S.log
            gam = w["p2"].group.Base.log
            expected = wa * dS * (x + y) + x * y * (gam - 1)
            label = "w*(s'-s)*(x1+x2) + x1*x2*(gamma-1)"
        honest = z3.And(w["dA"].eq_term(w["mB"]), w["dB"].eq_term(w["mA"]))
        # is this an honest-delivery path?  (then the decoded logs are the peers' polynomials)
        v, _, _ = r.ctx.solve(z3.Not(honest), timeout_ms=10000)
        if v == "unsat":
            J.claim(r, "step 2: log K_A - log K_B = %s  (given equal password scalars)" % label,
                    z3.Implies(wa == wb, KA - KB == expected), cex=cex, oracle="tamper")
            J.claim(r, "step 3: equal keys => q | log K_A - log K_B  (injective encoding of K)",
                    z3.Implies(keq, (KA - KB) % q == 0), cex=cex, oracle="tamper")
            if variant != "same":
                # the blinding-element clause itself fails exactly on the scalar-coincidence class (known finding F6)
                if fl == "AB":
                    differ = z3.Or(dN % q != 0, dM % q != 0, (gam - 1) % q != 0)
                else:
                    differ = z3.Or(dS % q != 0, (gam - 1) % q != 0)
                ctx_extra = [differ]
                J.claim(r, "equal keys => the two ends used the same blinding elements and generator",
                        z3.Implies(keq, z3.Not(differ)), cex=cex, oracle="tamper")


def _cex(w, m, fl, variant, q):
    if w is None or m is None:
        return dict(fl=fl, variant=variant, x=1, y=0, wscalar=1)
    return dict(fl=fl, variant=variant, x=model_int(m, w["a"].xy_scalar) % q, y=model_int(m, w["b"].xy_scalar) % q,
                wscalar=model_int(m, w["a"].pw_scalar) % q)


def job_pool_ground(J):
    for nm in ("Ed25519", "I1024", "I2048", "I3072"):
        v, detail = oracle_modpool(nm)
        J.ground("no in-flight modification of the pool lets both ends of %s agree on a key" % nm, not v, detail,
                 oracle="modpool", args=dict(name=nm))


# ------------------------------------------------------------------ oracles
def oracle_tamper(fl, variant, x, y, wscalar, twin=False, ser=(0, 0)):
    """realise the model on toy groups: parameter sets differing as in `variant`, secret scalars x, y (and the pool
    0, 1, q-1), a password with the model's scalar; equal keys although a blinding element/generator differs is the
    known scalar-coincidence class when q | the product of step 2"""
    from checks import common as C
    from spake2.params import _Params
    from spake2.groups import IntegerGroup
    # mismatched identities / passwords with either end restored in between
    for nm in ("toy11", "Ed25519", "I1024"):
        params = C.params_by_name(nm)
        for sr in {tuple(bool(s_) for s_ in ser), (True, False), (False, True), (True, True)}:
            for kw in (dict(idA_B=b"x"), dict(idB_B=b"a") if fl == "AB" else dict(idA_B=b"b"), dict(idB_B=b"x") if fl == "AB" else dict(pwB=b"pW"),
                       dict(idA_B=b"b", idB_B=b"a") if fl == "AB" else dict(pwB=b""), dict(pwB=b"pw\x00")):
                res = C.run_exchange(fl, params, b"pw", b"a", b"b", 5, 7, ser=sr, **kw)
                if res["oA"][0] == "key" and res["oB"][0] == "key" and res["oA"][1] == res["oB"][1]:
                    return (True, "%s %s: the ends differ in %r, yet agree on a key when restored=%s in between" % (nm, fl, kw, sr))
    if twin and fl == "SS":
        for nm in ("toy11", "Ed25519", "I1024"):
            params = C.params_by_name(nm)
            third = C.run_exchange("SS", params, b"pw", b"a", b"", 3, 4)["mA"]
            res = C.run_exchange("SS", params, b"pw", b"a", b"", 5, 5, deliver_to_A=third, deliver_to_B=third)
            if res["oA"][0] == "key" and res["oA"] == res["oB"] and res["mA"] == res["mB"]:
                return dict(violated=True, detail="symmetric flavour on %s: both ends drew the same secret scalar (identical blinded "
                            "elements), an attacker substituted one and the same third element for both messages, and both "
                            "ends derived the same key" % nm, **{"class": "identical-blinded-elements"})
        return (False, "twin substitution not accepted")
    for toy in ("toy11", "toy1019"):
        p_, q_, g_ = C.TOYS[toy]
        G1 = C.toy_group(toy)
        p1 = _Params(G1)
        if variant == "same":
            p2 = _Params(G1)
        elif variant == "gen":
            p2 = _Params(IntegerGroup(p=p_, q=q_, g=pow(g_, 3, p_)))
        else:
            kw = {}
            if "M" in variant:
                kw["M"] = b"M2"
            if "N" in variant:
                kw["N"] = b"N2"
            if "S" in variant:
                kw["S"] = b"symmetric2"
            p2 = _Params(G1, **kw)
        pws = [b"pw"]
        alt = C.find_password_with_scalar(G1, wscalar % q_, length=2)
        if alt:
            pws.append(alt)
        zero_pw = C.find_password_with_scalar(G1, 0, length=2)
        if zero_pw:
            pws.append(zero_pw)
        for pw in pws:
            for (xx, yy) in [(x % q_, y % q_), (1, 0), (0, 1), (0, 0), (1, q_ - 1), (2, 3)]:
                res = C.run_exchange(fl, p1, pw, b"a", b"b", xx, yy, paramsB=p2)
                oA, oB = res["oA"], res["oB"]
                if oA[0] == "key" and oB[0] == "key" and oA[1] == oB[1]:
                    if variant == "same":
                        continue
                    return dict(violated=True, detail="equal keys although the ends differ in %s: %s, pw=%r, scalars x=%d y=%d "
                                "(password scalar %d): the shared element does not depend on the mismatched element" % (
                                    variant, toy, pw, xx, yy, G1.password_to_scalar(pw)), **{"class": "scalar-coincidence"})
    v, d = oracle_modpool("Ed25519")
    if v:
        return (True, d)
    return (False, "no agreement under mismatch")


def modifications(msg, other, own_other, params):
    """pool of in-flight modifications of one message"""
    g = params.group
    out = []
    for pos in (0, 1, 2, len(msg) // 2, len(msg) - 1):
        for bit in (0, 7):
            m = bytearray(msg)
            m[pos] ^= (1 << bit)
            out.append(("flip byte %d bit %d" % (pos, bit), bytes(m)))
    out += [("truncate 1", msg[:-1]), ("truncate to side", msg[:1]), ("empty", b""), ("extend 00", msg + b"\x00"),
            ("extend ff", msg + b"\xff"), ("duplicate body", msg + msg[1:]), ("append peer body", msg + other[1:]),
            ("prepend 00 to body", msg[:1] + b"\x00" + msg[1:])]
    # bytes removed / inserted / moved at each kind of position (side byte, first and last body byte, middle)
    for pos in (0, 1, 2, len(msg) // 2, len(msg) - 2):
        out.append(("remove byte %d" % pos, msg[:pos] + msg[pos + 1:]))
        out.append(("remove byte %d, append 00" % pos, msg[:pos] + msg[pos + 1:] + b"\x00"))
        out.append(("insert 00 before byte %d" % pos, msg[:pos] + b"\x00" + msg[pos:]))
    out += [("remove first two bytes", msg[2:]), ("rotate left", msg[1:] + msg[:1]), ("swap first two bytes", msg[1:2] + msg[:1] + msg[2:]),
            ("side byte doubled", msg[:1] + msg)]
    for nm, el in (("identity", g.Zero), ("generator", g.Base), ("M", params.M), ("N", params.N), ("S", params.S),
                   ("2*element", None)):
        try:
            if el is None:
                e = g.bytes_to_element(msg[1:])
                el = e.add(e)
            out.append(("substitute " + nm, msg[:1] + el.to_bytes()))
        except Exception:
            pass
    out.append(("another session's message", own_other))
    return out


def oracle_modpool(name):
    from checks import common as C
    params = C.params_by_name(name)
    q = C.group_order(params.group)
    for fl in ("AB", "SS"):
        base = C.run_exchange(fl, params, b"pw", b"a", b"b", 5, 7)
        assert base["oA"][0] == "key" and base["oA"] == base["oB"], "honest run must agree"
        other = C.run_exchange(fl, params, b"pw", b"a", b"b", 11, 13)
        for which in ("toA", "toB", "both"):
            modsA = modifications(base["mB"], base["mA"], other["mB"], params) if which in ("toA", "both") else [("intact", base["mB"])]
            modsB = modifications(base["mA"], base["mB"], other["mA"], params) if which in ("toB", "both") else [("intact", base["mA"])]
            pairs = [(a, b) for a in modsA for b in modsB] if which != "both" else list(zip(modsA, modsB))
            for (na, da), (nb, db) in pairs:
                if da == base["mB"] and db == base["mA"]:
                    continue
                res = C.run_exchange(fl, params, b"pw", b"a", b"b", 5, 7, deliver_to_A=da, deliver_to_B=db)
                oA, oB = res["oA"], res["oB"]
                if oA[0] == "key" and oB[0] == "key" and oA[1] == oB[1]:
                    return (True, "%s %s: both ends agree on a key although messages were altered (to A: %s, to B: %s)" % (name, fl, na, nb))
        # an element whose encoding starts with 00, delivered with that byte removed / re-padded (integer groups)
        if name != "Ed25519" and fl == "AB":
            sp = C.S()
            yz, mz = C.leading_zero_scalar(lambda y: sp.SPAKE2_B(b"pw", idA=b"a", idB=b"b", params=params,
                                                                 entropy_f=C.entropy_for_scalar(params.group, y)).start())
            if yz is not None:
                for nm_, da in (("leading 00 byte of the element removed", mz[:1] + mz[2:]),
                                ("leading 00 removed, 00 appended", mz[:1] + mz[2:] + b"\x00")):
                    res = C.run_exchange(fl, params, b"pw", b"a", b"b", 5, yz, deliver_to_A=da)
                    if res["oA"][0] == "key" and res["oB"][0] == "key" and res["oA"][1] == res["oB"][1]:
                        return (True, "%s %s: both ends agree on a key although the message to A was altered (%s)" % (name, fl, nm_))
        # mismatched inputs
        for kw in (dict(pwB=b"pw2"), dict(idA_B=b"x"), dict(idB_B=b"x") if fl == "AB" else dict(idA_B=b"y"),
                   dict(idA_B=b"b", idB_B=b"a") if fl == "AB" else dict(pwB=b"")):
            res = C.run_exchange(fl, params, b"pw", b"a", b"b", 5, 7, **kw)
            if res["oA"][0] == "key" and res["oB"][0] == "key" and res["oA"][1] == res["oB"][1]:
                return (True, "%s %s: agreement under mismatch %r" % (name, fl, kw))
    return (False, "no modification of the pool leads to agreement")


from checks.c05 import job_int_lengths, job_ed_decode, job_int_element_codec      # noqa: E402
from checks.pools import oracle_pool                                                # noqa: E402


def oracle_pool_and_mods(group, extra=()):
    v = oracle_pool(group, extra)
    bad = v.get("violated") if isinstance(v, dict) else v[0]
    if bad:
        return v
    return oracle_modpool(group)


ORACLES = dict(tamper=oracle_tamper, modpool=oracle_modpool, pool=oracle_pool_and_mods)
