"""C08 -- persist/restore is transparent at every point between start and finish."""
import z3
from symx.core import Ctx, SymInt, SymBytes, SymBool, SymHex, T, B, model_int
from symx import loader, env
from symx.proto import (Entropy, setup_hash_axioms, outcome, okind, orders, new_instance, restore, sym_inputs,
                        abstract_params, klass, PEER, SIDE_BYTE)
from checks.c07 import _state, _unchanged

PID = "C08"
TECHNIQUE = 'symbolic execution of original vs k-fold restored instance on the same symbolic inbound message; z3 decides identical outcome class and key; serialize purity by state snapshots; real scalar codecs on [0,q)'
LEVEL_NOTE = 'JSON modelled as an opaque inverse pair; GC contract'
EXPLANATION = (
    "For each real class an instance is started with symbolic password/identities/entropy; a second instance is obtained "
    "by k in {1,2,3} rounds of the real serialize() -> from_serialized(); both receive the same fully symbolic inbound "
    "message (symbolic side byte, symbolic body of element width, or width+-1). Every pair of paths through the two "
    "real finish() calls is enumerated; the solver proves that mixed outcome classes are unreachable, that two "
    "returned keys are equal, that the restored instance refuses the reflection of the originally sent message, that "
    "serialize() of the restored instance yields a dictionary equal field-by-field to the original's, that serialize() "
    "draws no entropy, writes no attribute and returns the same data twice, and that every value handed to json.dumps "
    "is hex text or an ASCII constant (so the JSON is printable ASCII given json.dumps' contract)."
)
TRUSTED = ["abstract group contract GC incl. exact fixed-width scalar codec (C15 for the real groups)",
           "json.dumps/loads modelled as an opaque inverse pair on dictionaries of hex text"]
ASSUMPTIONS = ["pw/id lengths from the stated sets; restore cycles k <= 3",
               "scalar codec on the real groups: shipped groups, custom groups with non-byte-aligned q and one custom group "
               "with 257-byte scalars (big2052); wider custom groups are outside"]


def jobs(tier):
    js = []
    qs = ["11", "L"] if tier == "quick" else ["11", "L", "q1024", "q2048", "q3072"]
    lens_all = [(1, 1, 2), (0, 0, 0), (3, 2, 1)] if tier == "quick" else [(1, 1, 2), (0, 0, 0), (3, 2, 1), (65, 3, 0)]
    for qn in qs:
        for cls in "ABS":
            for k in (1, 2, 3):
                for li, lens in enumerate(lens_all):
                    if tier == "quick" and (k > 1 and li > 0):
                        continue
                    for shape in ("full", "short", "long"):
                        if shape != "full" and (k > 1 or li > 0):
                            continue
                        js.append(("job_restore", dict(_name="q=%s %s k=%d lens=%s msg=%s" % (qn, cls, k, lens, shape),
                                                       qn=qn, cls=cls, k=k, lens=lens, shape=shape)))
    for cls in "ABS":      # long inputs (a certificate as identity, a long passphrase): kept as single integers
        js.append(("job_restore", dict(_name="q=11 %s k=1 long inputs (pw 2100, ids 700/5000 bytes)" % cls, qn="11", cls=cls, k=1,
                                       lens=(2100, 700, 5000), shape="full")))
    for g in ("I1024", "I2048", "I3072"):
        js.append(("job_int_scalar_codec", dict(_name="real %s: every scalar of [0,q) survives scalar_to_bytes/bytes_to_scalar" % g, gname=g)))
    js.append(("job_ed_scalar_codec", dict(_name="real Ed25519: every scalar of [0,L) survives the scalar codec")))
    for g in ("toy11", "I1024", "Ed25519"):
        js.append(("job_matrix", dict(_name="session matrix on the plain package: %s (ground)" % g, gname=g)))
    js.append(("job_matrix", dict(_name="session matrix on the plain package: big2052, scalars wider than 256 bytes (ground)", gname="big2052")))
    for g in ("toy257", "toy1019", "sp61", "big2052"):
        js.append(("job_int_scalar_codec", dict(_name="custom group %s: every scalar of [0,q) survives the scalar codec" % g, gname=g)))
    return js


def job_matrix(J, gname):
    from checks import matrix
    r = matrix.session_matrix((gname,))
    J.ground("sessions of all roles interleaved in one process on %s: serialize() is the released state of that session only, "
             "restored instances finish like the originals" % gname, r is None, r, oracle="restore",
             args=dict(cls="A", k=1, shape="full", side=0x42, mode="peer", pw=b"pw", idA=b"a", idB=b"b", x=3))


def _dict_equal(d1, d2):
    if set(d1) != set(d2):
        return z3.BoolVal(False)
    conj = []
    for key in d1:
        a, b = d1[key], d2[key]
        if isinstance(a, str) and isinstance(b, str):
            conj.append(z3.BoolVal(a == b))
        else:
            ha, hb = SymHex._of(a), SymHex._of(b)
            if ha is None or hb is None:
                return z3.BoolVal(False)
            conj.append(ha.b.eq_term(hb.b))
    return z3.And(conj)


def job_restore(J, qn, cls, k, lens, shape):
    q = orders()[qn]
    J.bounds.update(q=qn, cls=cls, restore_cycles=k, lens=lens, message_shape=shape)

    def h(ctx):
        setup_hash_axioms(ctx)
        params = abstract_params(q, rejects_identity=(qn == "L"))
        W = params.group.element_size_bytes
        pw, idA, idB = sym_inputs(lens)
        ent = Entropy("ent")
        a = new_instance(cls, params, pw, idA, idB, ent)
        own = SymBytes.of(a.start())
        w = dict(a=a, own=own, pw=pw, idA=idA, idB=idB, ent=ent)
        ctx.data["w"] = w
        n0 = len(ent.calls)
        pre = _state(a)
        blob1 = a.serialize()
        blob2 = a.serialize()
        w["ser_draws"] = len(ent.calls) - n0
        w["ser_unchanged"] = _unchanged(pre, _state(a))
        w["d1"], w["d2"] = blob1.obj, blob2.obj
        b = a
        for _ in range(k):
            b = restore(cls, b, params)
        w["b"] = b
        w["d3"] = b.serialize().obj
        n = {"full": W, "short": W - 1, "long": W + 1}[shape]
        msg = SymBytes.fresh("side", 1) + SymBytes.fresh_chunk("body", n)
        w["msg"] = msg
        w["oa"] = outcome(a.finish, msg)
        w["ob"] = outcome(b.finish, msg)
        # reflection of the originally sent message against a second restored copy
        c = restore(cls, a, params) if False else None
        return okind(w["oa"]), okind(w["ob"])

    for r in J.explore(h):
        w = r.ctx.data.get("w")
        J.reach(r)
        cex = lambda m, w=w: _cex(w, m, cls, k, shape)
        if r.kind != "ret":
            J.claim(r, "start/serialize/from_serialized do not raise (%s)" % type(r.value).__name__, False, cex=cex, oracle="restore")
            continue
        ka, kb = r.value
        J.claim(r, "serialize() draws no entropy", w["ser_draws"] == 0, cex=cex, oracle="restore")
        J.claim(r, "serialize() does not change the instance", w["ser_unchanged"], cex=cex, oracle="restore")
        J.claim(r, "serialize() returns the same data each time", _dict_equal(w["d1"], w["d2"]), cex=cex, oracle="restore")
        J.claim(r, "restored instance serializes to equivalent data", _dict_equal(w["d1"], w["d3"]), cex=cex, oracle="restore")
        J.claim(r, "every serialized value is hex text or an ASCII constant",
                all(isinstance(v, SymHex) or (isinstance(v, str) and v.isascii() and v.isprintable()) for v in w["d1"].values()),
                cex=cex, oracle="restore")
        J.claim(r, "restored instance reproduces the outbound message", SymBytes.of(w["b"].outbound_message).eq_term(w["own"][1:]),
                cex=cex, oracle="restore")
        if ka != kb:
            J.claim(r, "original and restored never end differently (%s vs %s)" % (ka, kb), False, cex=cex, oracle="restore")
        elif ka == "key":
            J.claim(r, "original and restored derive the same key", SymBytes.of(w["oa"][1]).eq_term(w["ob"][1]),
                    cex=cex, oracle="restore")
        else:
            J.claim(r, "same error class on both (%s)" % ka, True, sample=False)


def _cex(w, m, cls, k, shape):
    if w is None or "msg" not in w:
        return dict(cls=cls, k=k, shape=shape, side=SIDE_BYTE[PEER[cls]], mode="peer", pw=b"p", idA=b"a", idB=b"b", x=3) \
            if w is None else dict(cls=cls, k=k, shape=shape, side=SIDE_BYTE[PEER[cls]], mode="peer",
                                   pw=w["pw"].model_bytes(m), idA=w["idA"].model_bytes(m), idB=w["idB"].model_bytes(m), x=3)
    msg, own = w["msg"], w["own"]
    side = msg[0:1].model_bytes(m)[0]
    mode = "peer"
    if m is not None and len(msg) == len(own) and z3.is_true(m.eval(msg[1:].eq_term(own[1:]), model_completion=True)):
        mode = "own"
    return dict(cls=cls, k=k, shape=shape, side=side, mode=mode, pw=w["pw"].model_bytes(m), idA=w["idA"].model_bytes(m),
                idB=w["idB"].model_bytes(m), x=model_int(m, w["a"].xy_scalar))


# ------------------------------------------------------------------ oracle
def oracle_restore(cls, k, shape, side, mode, pw, idA, idB, x):
    import json
    from checks import common as C
    sp = C.S()
    K = {"A": sp.SPAKE2_A, "B": sp.SPAKE2_B, "S": sp.SPAKE2_Symmetric}
    pc = PEER[cls]
    for nm in ("Ed25519", "I1024", "I2048", "I3072", "toy11"):
        params = C.params_by_name(nm)
        q = C.group_order(params.group)

        def mk(c, xx):
            e = C.entropy_for_scalar(params.group, xx)
            if c == "S":
                return K[c](pw, idSymmetric=idA, params=params, entropy_f=e), e
            return K[c](pw, idA=idA, idB=idB, params=params, entropy_f=e), e
        for sd in sorted({side, SIDE_BYTE[pc], SIDE_BYTE[cls], 0x43}):
            for md, xs in [(m_, x % q) for m_ in sorted({mode, "own", "peer", "junk"})] + [("peer", 0), ("peer", 1), ("peer", q - 1), ("long", 3 % q)]:
                if md == "long":           # long password / identities (restore must not depend on their size)
                    pw_, idA_, idB_ = pw, idA, idB
                    pw, idA, idB = b"P" * 3000, b"\x30\x82" + bytes(range(256)) * 8, b"i" * 70000
                a, ent = mk(cls, xs)
                if md == "long":
                    own = a.start()
                    try:
                        b = K[cls].from_serialized(a.serialize(), params=params)
                        peer_msg = mk(pc, (xs + 1) % q)[0].start()
                        oa, ob = C.finish_outcome(a, peer_msg), C.finish_outcome(b, peer_msg)
                    except Exception as e:
                        pw, idA, idB = pw_, idA_, idB_
                        return (True, "restore of a session with a %d-byte password and %d/%d-byte identities raised %r on %s" % (3000, 2050, 70000, e, nm))
                    pw, idA, idB = pw_, idA_, idB_
                    if oa != ob:
                        return (True, "restored long-input session finishes differently on %s" % nm)
                    continue
                own = a.start()
                n0 = len(ent.calls)
                before = dict(a.__dict__)
                try:
                    s1, s2 = a.serialize(), a.serialize()
                except Exception as e:
                    return (True, "serialize raised %r on %s" % (e, nm))
                if len(ent.calls) != n0:
                    return (True, "serialize drew entropy on %s" % nm)
                if s1 != s2 or dict(a.__dict__) != before:
                    return (True, "serialize not idempotent/pure on %s" % nm)
                try:
                    txt = s1.decode("ascii")
                    if not txt.isprintable():
                        return (True, "serialize output not printable ASCII")
                    d1 = json.loads(txt)
                except Exception as e:
                    return (True, "serialize output not ASCII JSON: %r" % (e,))
                b = a
                try:
                    for _ in range(k):
                        b = K[cls].from_serialized(b.serialize(), params=params)
                    d3 = json.loads(b.serialize().decode("ascii"))
                except Exception as e:
                    return (True, "restore raised %r on %s pw=%r idA=%r idB=%r" % (e, nm, pw, idA, idB))
                if d1 != d3:
                    return (True, "restored instance serializes differently on %s: %r vs %r" % (nm, d1, d3))
                peer_msg = mk(pc, (xs + 1) % q)[0].start()
                body = {"own": own[1:], "peer": peer_msg[1:], "junk": bytes(len(own) - 1)}[md]
                if shape == "short":
                    body = body[:-1]
                elif shape == "long":
                    body = body + b"\x00"
                msg = bytes([sd]) + body
                oa, ob = C.finish_outcome(a, msg), C.finish_outcome(b, msg)
                if oa != ob:
                    return (True, "class=%s params=%s k=%d msg=%02x/%s/%s pw=%r idA=%r idB=%r: original %s, restored %s" % (
                        cls, nm, k, sd, md, shape, pw, idA, idB, oa[1] if oa[0] == "exc" else "key " + oa[1].hex()[:16],
                        ob[1] if ob[0] == "exc" else "key " + ob[1].hex()[:16]))
    from checks import matrix
    r = matrix.session_matrix()
    if r:
        return (True, r)
    return (False, "restored instances behave identically")


from checks.c15 import job_int_scalar_codec, job_ed_scalar_codec, ORACLES as _O15      # noqa: E402
ORACLES = dict(_O15, restore=oracle_restore)
