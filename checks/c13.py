"""C13 -- group elements obey the group axioms through the element API, in every group."""
import z3
from symx.core import Ctx, SymInt, SymBytes, SymBool, Flags, T, B, PathAbort, EngineUnsupported, model_int
from symx import loader
from symx.dlog import DlogDomain, Dlog, member_element
from symx.edabs import EdAbs, AbsPt

PID = "C13"
TECHNIQUE = 'the real element classes in the exponent domain (integer groups) and over abstract points (Ed25519); z3 decides the group laws for symbolic elements and unbounded integer scalars'
LEVEL_NOTE = 'G1 exponent laws; K1-K5 kernel contracts (C12); E = Z_L x Z_8'
EXPLANATION = (
    "Integer groups: the real _Element methods and IntegerGroup._add/_scalarmult/_element_to_bytes/bytes_to_element/"
    "_is_member (shipped I1024, I2048, I3072 objects and IntegerGroup(23,11,2)) run in the exponent domain: elements "
    "obtainable through the API (Base, Zero, arbitrary elements g^a, g^b, g^c with symbolic logs, results of operations) "
    "are g^log with log an integer polynomial, integer scalars n, m are unbounded solver variables (negative, 0, >= q); "
    "builtin *, %, pow obey the exponent laws of Z_p^* (contract G1). Ed25519: the real Element, ElementOfUnknownGroup, "
    "_ZeroElement methods run over abstract points (k, t) in Z_L x Z_8 with the field kernels replaced by contracts "
    "K1-K5 (C12). In both, the solver proves commutativity, associativity, identity, scalarmult(n) = n-fold addition "
    "(as log*n) for every integer n, dependence on n mod q only, distributivity over add and over scalar addition and "
    "multiplication, Base*q = Zero, negate/subtract = additive inverse, ==/!= agreeing with equality of encodings, and "
    "the typing obligations of the class lattice (every result of operations on API-obtainable elements supports the "
    "same operations, including negative scalars, and encodes to the fixed width). Counterexamples are specialised to "
    "multiples of Base and replayed through the real API against independent arithmetic."
)
TRUSTED = ["G1: laws of *, %, pow in Z_p^* in exponent form; Z_p^* cyclic", "K1-K5 kernel contracts (C12) for Ed25519",
           "E(F_Q) = Z_L x Z_8"]
ASSUMPTIONS = ["expression depth <= 3 operations for 'results of operations'", "scalars unbounded integers",
               "elements entering through bytes_to_element: integer groups I1024, toy11, toy257, sp61 symbolically (accepted => "
               "reduced member, identity laws on the decoded object); Ed25519 decoded elements are covered by C05 + the "
               "class-lattice jobs"]


def jobs(tier):
    js = []
    for g in ("I1024", "I2048", "I3072", "toy11"):
        js.append(("job_int_laws", dict(_name="integer group %s: group laws" % g, gname=g)))
        js.append(("job_int_api", dict(_name="integer group %s: == / != / encode / decode / typing" % g, gname=g)))
    for g in ("I1024", "toy11", "toy257", "sp61"):
        js.append(("job_int_decoded", dict(_name="integer group %s: decoded elements are reduced members and obey the identity laws" % g, gname=g)))
    js.append(("job_ed_laws", dict(_name="Ed25519 class lattice: group laws")))
    js.append(("job_ed_api", dict(_name="Ed25519 class lattice: == / typing / negate / subtract")))
    js.append(("job_pool_ground", dict(_name="edge operands on the real API (ground)")))
    return js


def _int_group(gname):
    G = loader.MODS["groups"]
    if gname == "toy11":
        return G.IntegerGroup(p=23, q=11, g=2)
    if hasattr(G, gname):
        return getattr(G, gname)
    from checks.realtier import custom_world
    return custom_world(gname)[0]


def _beq(a, b):
    return SymBytes.of(a).eq_term(b)


def _laws(a, b, c, Zero, Base, n, m, q):
    """(name, lhs element, rhs element) built through the real API"""
    return [
        ("a+b = b+a", lambda: (a.add(b), b.add(a))),
        ("(a+b)+c = a+(b+c)", lambda: (a.add(b).add(c), a.add(b.add(c)))),
        ("a+Zero = a", lambda: (a.add(Zero), a)),
        ("Zero+a = a", lambda: (Zero.add(a), a)),
        ("a*(n+m) = a*n + a*m", lambda: (a.scalarmult(n + m), a.scalarmult(n).add(a.scalarmult(m)))),
        ("(a*n)*m = a*(n*m)", lambda: (a.scalarmult(n).scalarmult(m), a.scalarmult(n * m))),
        ("a*n = a*(n + q*m)  (depends on n mod q only)", lambda: (a.scalarmult(n), a.scalarmult(n + q * m))),
        ("(a+b)*n = a*n + b*n", lambda: (a.add(b).scalarmult(n), a.scalarmult(n).add(b.scalarmult(n)))),
        ("a*(n+1) = a*n + a  (n-fold addition, step)", lambda: (a.scalarmult(n + 1), a.scalarmult(n).add(a))),
        ("a*0 = Zero", lambda: (a.scalarmult(0), Zero)),
        ("a*1 = a", lambda: (a.scalarmult(1), a)),
        ("a*(-1) + a = Zero", lambda: (a.scalarmult(-1).add(a), Zero)),
        ("a*q = Zero", lambda: (a.scalarmult(q), Zero)),
        ("Base*q = Zero", lambda: (Base.scalarmult(q), Zero)),
        ("Zero*n = Zero", lambda: (Zero.scalarmult(n), Zero)),
        ("(a+Zero)*(-1) + a = Zero  (results stay full elements)", lambda: (a.add(Zero).scalarmult(-1).add(a), Zero)),
        ("(a*n + b)*(-m) = a*(-n*m) + b*(-m)  (chained results, negative scalars)",
         lambda: (a.scalarmult(n).add(b).scalarmult(-m), a.scalarmult(-(n * m)).add(b.scalarmult(-m)))),
    ]


def _run_laws(J, setup, label, cexf, W):
    names = [nm for nm, _ in [(x[0], None) for x in _laws(*([None] * 8))]] if False else None

    for idx in range(17):
        def h(ctx, idx=idx):
            a, b, c, Zero, Base, n, m, q = setup(ctx)
            nm, f = _laws(a, b, c, Zero, Base, n, m, q)[idx]
            ctx.data["law"] = nm
            lhs, rhs = f()
            return nm, lhs, rhs, lhs.to_bytes(), rhs.to_bytes()
        for r in J.explore(h, max_paths=64):
            J.reach(r)
            nm = r.ctx.data.get("law", "law %d" % idx)
            cex = lambda m_, r=r: cexf(r, m_)
            if r.kind != "ret":
                J.claim(r, "%s: %s holds without %s" % (label, nm, type(r.value).__name__), False, cex=cex, oracle="laws")
                continue
            _, lhs, rhs, bl, br = r.value
            J.claim(r, "%s: %s" % (label, nm), _beq(bl, br), cex=cex, oracle="laws")
            J.claim(r, "%s: %s -- both sides encode to %d bytes" % (label, nm, W),
                    len(SymBytes.of(bl)) == W and len(SymBytes.of(br)) == W, cex=cex, oracle="laws")


# ------------------------------------------------------------------ integer groups
def _int_setup(g, gname):
    def setup(ctx):
        D = DlogDomain(g, gname)
        D.install(ctx)
        (a, ka), (b, kb), (c, kc) = member_element(ctx, D, "ka"), member_element(ctx, D, "kb"), member_element(ctx, D, "kc")
        n, m = SymInt(z3.Int("n")), SymInt(z3.Int("m"))
        ctx.data["syms"] = dict(ka=ka, kb=kb, kc=kc, n=n, m=m)
        return a, b, c, g.Zero, g.Base, n, m, g.q
    return setup


def _int_cex(gname, q):
    def cexf(r, m_):
        s = r.ctx.data.get("syms")
        if s is None:
            return dict(group=gname, a=1, b=2, c=3, n=1, m=1)
        return dict(group=gname, a=model_int(m_, s["ka"], 1) % q, b=model_int(m_, s["kb"], 2) % q,
                    c=model_int(m_, s["kc"], 3) % q, n=model_int(m_, s["n"], 1), m=model_int(m_, s["m"], 1))
    return cexf


def job_int_laws(J, gname):
    g = _int_group(gname)
    J.bounds.update(group=gname, scalars="unbounded integers", elements="arbitrary subgroup elements g^a, g^b, g^c")
    _run_laws(J, _int_setup(g, gname), gname, _int_cex(gname, g.q), (g.p.bit_length() + 7) // 8)
    Flags.pow_stub = None


def job_int_api(J, gname):
    G = loader.MODS["groups"]
    g = _int_group(gname)
    setup = _int_setup(g, gname)
    cexf = _int_cex(gname, g.q)
    W = (g.p.bit_length() + 7) // 8

    def h(ctx):
        a, b, c, Zero, Base, n, m, q = setup(ctx)
        out = {}
        e1, e2 = a.add(b), b.add(a)
        out["eq"] = (e1 == e2)
        out["ne"] = (e1 != e2)
        out["eq_bytes"] = _beq(e1.to_bytes(), e2.to_bytes())
        d1, d2 = a, a.add(b)
        out["eq2"] = (d1 == d2)
        out["ne2"] = (d1 != d2)
        out["eq2_bytes"] = _beq(d1.to_bytes(), d2.to_bytes())
        rt = g.bytes_to_element(e1.to_bytes())
        out["roundtrip"] = _beq(rt.to_bytes(), e1.to_bytes())
        out["types"] = all(isinstance(x, G._Element) and x._group is g for x in (e1, rt, a.scalarmult(n), Zero.add(a), a.scalarmult(0)))
        return out
    for r in J.explore(h, max_paths=64):
        J.reach(r)
        cex = lambda m_, r=r: cexf(r, m_)
        if r.kind != "ret":
            J.claim(r, "%s: ==, !=, encode, decode run without %s" % (gname, type(r.value).__name__), False, cex=cex, oracle="laws")
            continue
        o = r.value

        def as_term(v):
            return v if z3.is_expr(v) else B(v)
        J.claim(r, "%s: (a+b == b+a) is value equality (agrees with equality of encodings)" % gname,
                as_term(o["eq"]) == as_term(o["eq_bytes"]), cex=cex, oracle="laws")
        J.claim(r, "%s: (a+b != b+a) is the negation of ==" % gname, as_term(o["ne"]) == z3.Not(as_term(o["eq_bytes"])),
                cex=cex, oracle="laws")
        J.claim(r, "%s: (a == a+b) agrees with equality of encodings" % gname, as_term(o["eq2"]) == as_term(o["eq2_bytes"]),
                cex=cex, oracle="laws")
        J.claim(r, "%s: (a != a+b) agrees with inequality of encodings" % gname,
                as_term(o["ne2"]) == z3.Not(as_term(o["eq2_bytes"])), cex=cex, oracle="laws")
        J.claim(r, "%s: results decode back to themselves" % gname, o["roundtrip"], cex=cex, oracle="laws")
        J.claim(r, "%s: every result is an element of the same group" % gname, o["types"], cex=cex, oracle="laws")
    Flags.pow_stub = None


def job_int_decoded(J, gname):
    """elements that enter through bytes_to_element: the laws jobs quantify over reduced subgroup members g^a, so a decoded
    element must BE one (0 < value < p, member), and the identity / one-fold laws are run on the decoded object itself"""
    from checks.c15 import member_pow_stub, MEMBER
    G = loader.MODS["groups"]
    g = _int_group(gname)
    p, q, W = g.p, g.q, (g.p.bit_length() + 7) // 8
    Flags.pow_stub = member_pow_stub(p, q)
    J.bounds.update(group=gname, element_bytes=W)

    def h(ctx):
        b = SymBytes.fresh_chunk("eb", W)
        ctx.data["sym"] = b
        e = g.bytes_to_element(b)
        z1, z2 = e.add(g.Zero), g.Zero.add(e)
        return e, z1, z2, (e == z1), (e != z2), e.to_bytes()
    try:
        for r in J.explore(h):
            b = r.ctx.data["sym"]
            J.reach(r)
            pcb = dict(cex=lambda m, b=b: dict(group=gname, a=1, b=2, c=3, n=1, m=1, enc=b.model_bytes(m)), oracle="laws")
            if r.kind != "ret":
                J.claim(r, "a refused string is out of range or not a member; nothing else raises (%s)" % type(r.value).__name__,
                        z3.And(isinstance(r.value, ValueError),
                               z3.Or(b.value() <= 0, b.value() >= p, z3.Not(MEMBER(b.value())))), **pcb)
                continue
            e, z1, z2, eq, ne, enc = r.value
            as_term = lambda v: v if z3.is_expr(v) else B(v)
            J.claim(r, "a decoded element is a reduced member: 0 < value < p", z3.And(T(e._e) > 0, T(e._e) < p, MEMBER(T(e._e))), **pcb)
            J.claim(r, "decoded e: e + Zero and Zero + e have e's value", z3.And(T(z1._e) == T(e._e), T(z2._e) == T(e._e)), **pcb)
            J.claim(r, "decoded e: e == e + Zero is True and e != Zero + e is False", z3.And(as_term(eq), z3.Not(as_term(ne))), **pcb)
            J.claim(r, "decoded e encodes to the string it came from", SymBytes.of(enc).eq_term(b), **pcb)
    finally:
        Flags.pow_stub = None


# ------------------------------------------------------------------ Ed25519
def _ed_setup(ctx):
    E = loader.MODS["ed25519_basic"]
    A = EdAbs(E)
    A.install(ctx)
    ctx.data["edabs_obj"] = A
    (a, ka), (b, kb), (c, kc) = A.subgroup_element("ka"), A.subgroup_element("kb"), A.subgroup_element("kc")
    n, m = SymInt(z3.Int("n")), SymInt(z3.Int("m"))
    ctx.data["syms"] = dict(ka=ka, kb=kb, kc=kc, n=n, m=m)
    return a, b, c, E.Zero, E.Base, n, m, E.L


def _ed_cex(r, m_):
    from checks import refimpl as R
    s = r.ctx.data.get("syms")
    if s is None:
        return dict(group="Ed25519", a=1, b=2, c=3, n=1, m=1)
    return dict(group="Ed25519", a=model_int(m_, s["ka"], 1) % R.L, b=model_int(m_, s["kb"], 2) % R.L,
                c=model_int(m_, s["kc"], 3) % R.L, n=model_int(m_, s["n"], 1), m=model_int(m_, s["m"], 1))


def job_ed_laws(J):
    E = loader.MODS["ed25519_basic"]
    J.bounds.update(group="Ed25519", scalars="unbounded integers", elements="arbitrary Elements (order L)")
    try:
        _run_laws(J, _ed_setup, "Ed25519", _ed_cex, 32)
    finally:
        pass


def job_ed_api(J):
    E = loader.MODS["ed25519_basic"]

    def h(ctx):
        a, b, c, Zero, Base, n, m, L = _ed_setup(ctx)
        out = {}

        def ob(name, f):
            try:
                out[name] = ("ok", f())
            except EngineUnsupported:
                raise
            except Exception as e:
                out[name] = ("exc", type(e).__name__)
        ob("negate", lambda: _beq(a.add(a.negate()).to_bytes(), Zero.to_bytes()))
        ob("negate=smul(-1)", lambda: _beq(a.negate().to_bytes(), a.scalarmult(-1).to_bytes()))
        ob("subtract", lambda: _beq(a.add(b).subtract(b).to_bytes(), a.to_bytes()))
        ob("subtract self", lambda: _beq(a.subtract(a).to_bytes(), Zero.to_bytes()))
        ob("Zero.negate", lambda: Zero.negate() is Zero)
        ob("Zero.subtract(a)", lambda: _beq(Zero.subtract(a).to_bytes(), a.scalarmult(-1).to_bytes()))
        e1, e2 = a.add(b), b.add(a)
        ob("eq", lambda: B(e1 == e2) == _beq(e1.to_bytes(), e2.to_bytes()))
        ob("ne", lambda: B(e1 != e2) == z3.Not(_beq(e1.to_bytes(), e2.to_bytes())))
        ob("eq2", lambda: B(a == e1) == _beq(a.to_bytes(), e1.to_bytes()))
        ob("eqZero", lambda: B(a.scalarmult(n) == Zero) == _beq(a.scalarmult(n).to_bytes(), Zero.to_bytes()))
        for nm, f in (("a+b", lambda: a.add(b)), ("a+Zero", lambda: a.add(Zero)), ("Zero+a", lambda: Zero.add(a)),
                      ("a*n", lambda: a.scalarmult(n)), ("a*(-n)", lambda: a.scalarmult(-n)), ("a.negate()", lambda: a.negate()),
                      ("a-b", lambda: a.subtract(b)), ("(a+b)*n", lambda: a.add(b).scalarmult(n)),
                      ("(a+Zero)+b", lambda: a.add(Zero).add(b)), ("Base*n", lambda: Base.scalarmult(n))):
            ob("type " + nm, lambda f=f: type(f()).__name__)
        return out
    for r in J.explore(h, max_paths=400):
        J.reach(r)
        cex = lambda m_, r=r: _ed_cex(r, m_)
        if r.kind != "ret":
            J.claim(r, "Ed25519 API obligations run without %s" % type(r.value).__name__, False, cex=cex, oracle="laws")
            continue
        for name, (kind, v) in r.value.items():
            if kind == "exc":
                J.claim(r, "Ed25519: %s raises %s" % (name, v), False, cex=cex, oracle="laws")
            elif name.startswith("type "):
                J.claim(r, "Ed25519: %s is a full element (Element, or Zero)" % name[5:], v in ("Element", "_ZeroElement"),
                        cex=cex, oracle="laws")
            else:
                J.claim(r, "Ed25519: %s" % name, v, cex=cex, oracle="laws")


def job_pool_ground(J):
    for g in ("Ed25519", "I1024", "toy11"):
        v, detail = oracle_laws(g, 1, 2, 3, 5, 7)
        J.ground("edge operands (P+(-P), P+P, P+Zero, n in {0,1,-1,q-1,q,q+1,(q+-1)/2,2^k}) on %s agree with independent "
                 "arithmetic" % g, not v, detail, oracle="laws", args=dict(group=g, a=1, b=2, c=3, n=5, m=7))


# ------------------------------------------------------------------ oracle
def _alt_encodings(g, group, enc):
    """other byte strings that denote the same group element as the canonical `enc` (unreduced representatives); a decoder
    may refuse them, but whatever it accepts is an element the laws have to hold for"""
    out = []
    if group == "Ed25519":
        Q = 2 ** 255 - 19
        v = int.from_bytes(enc, "little")
        y, sign = v & ((1 << 255) - 1), v >> 255
        if y + Q < 2 ** 255:
            out.append(((y + Q) | (sign << 255)).to_bytes(32, "little"))
        return out
    p, W = g.p, len(enc)
    v = int.from_bytes(enc, "big")
    for j in (1, 2, 3):
        if v + j * p < 256 ** W:
            out.append((v + j * p).to_bytes(W, "big"))
    return out


def _decoded_element_laws(g, group, enc, q):
    """identity / one-fold laws on an element decoded from `enc` (if the decoder accepts it)"""
    try:
        e = g.bytes_to_element(enc)
    except Exception:
        return None
    Zero = g.Zero
    try:
        canon = e.to_bytes()
        checks = [("e + Zero == e", e.add(Zero) == e), ("not (e + Zero != e)", not (e.add(Zero) != e)),
                  ("Zero + e == e", Zero.add(e) == e), ("e*1 == e", e.scalarmult(1) == e), ("e*(q+1) == e", e.scalarmult(q + 1) == e),
                  ("e == decode(encode(e))", g.bytes_to_element(canon) == e), ("not (e != decode(encode(e)))", not (g.bytes_to_element(canon) != e)),
                  ("(e + Zero) encodes like e", e.add(Zero).to_bytes() == canon),
                  ("e + e == e*2", e.add(e) == e.scalarmult(2)), ("e*q is Zero", e.scalarmult(q).to_bytes() == Zero.to_bytes())]
    except Exception as ex:
        return "an element decoded from %s on %s raises %s in the group operations" % (enc.hex()[:40], group, type(ex).__name__)
    bad = [nm for nm, ok in checks if not ok]
    if bad:
        return "for the element decoded from %s on %s: %s fails" % (enc.hex()[:40], group, "; ".join(bad))
    return None


def oracle_laws(group, a, b, c, n, m, enc=None):
    """all laws on the real API with elements Base*a, Base*b, Base*c and edge scalars, against refimpl"""
    from checks import refimpl as R
    from checks import published_constants as PC
    if group == "Ed25519":
        from spake2.ed25519_group import Ed25519Group as g
        rg = R.RefEdGroup()
    elif group in ("toy11", "toy1019", "toy257", "sp61"):
        from checks import common as C
        g = C.toy_group(group)
        rg = R.RefIntGroup(*C.TOYS[group])
    else:
        from spake2 import groups
        g = getattr(groups, group)
        d = PC.INT_GROUPS[group]
        rg = R.RefIntGroup(d["p"], d["q"], d["g"])
    q = rg.q
    Base, Zero = g.Base, g.Zero

    def ref(k):
        return rg.enc(rg.mul(rg.base(), k % q))
    # the 17 laws themselves on the model's operands (and sign/multiple-of-q variants of its scalars)
    def reps(k):
        """the element Base*k reached by different routes (different internal representations)"""
        k = k % q or 1
        e0 = Base.scalarmult(k)
        out = [e0]
        try:
            out.append(g.bytes_to_element(e0.to_bytes()))
        except Exception:
            pass
        out.append(Base.scalarmult(k - 1).add(Base) if k > 1 else Base.scalarmult(k + 1).add(Base.scalarmult(-1)))
        out.append(Base.scalarmult(2 * k).scalarmult((q + 1) // 2))
        for alt in _alt_encodings(g, group, e0.to_bytes()):
            try:
                out.append(g.bytes_to_element(alt))
            except Exception:
                pass
        return out
    # elements that enter through the decoder (the model's string, and unreduced forms of a few members)
    encs = [enc] if enc else []
    for k in (1, 2, 3, 5, 7, q - 1):
        for i in range(0, 40):
            alts = _alt_encodings(g, group, Base.scalarmult((k + i) % q or 1).to_bytes())
            if alts:
                encs += alts
                break
    for e_ in encs:
        bad = _decoded_element_laws(g, group, e_, q)
        if bad:
            return (True, bad)
    # value-equal elements in different representations behave identically
    for k in sorted({a % q or 1, b % q or 1, 1, 2, 5}):
        rs = reps(k)
        for i, e1 in enumerate(rs):
            for j, e2 in enumerate(rs):
                for (what, f, kk) in (("P+P'", lambda: e1.add(e2), 2 * k), ("P+P'+P", lambda: e1.add(e2).add(e1), 3 * k),
                                      ("(P+P')*3", lambda: e1.add(e2).scalarmult(3), 6 * k)):
                    try:
                        got = f().to_bytes()
                    except Exception as ex:
                        return (True, "%s raised %s on %s for P=Base*%d reached by routes %d and %d" % (what, type(ex).__name__, group, k, i, j))
                    if got != ref(kk):
                        return (True, "%s is wrong on %s for the same element P=Base*%d reached by two different routes (%d, %d)" % (what, group, k, i, j))
                if hasattr(e1, "subtract"):
                    try:
                        if e1.subtract(e2).to_bytes() != ref(0) or e1.negate().to_bytes() != ref(-k) or e1.negate().add(e2).to_bytes() != ref(0):
                            return (True, "negate/subtract wrong on %s for P=Base*%d reached by routes %d and %d" % (group, k, i, j))
                    except Exception as ex:
                        return (True, "negate/subtract raised %s on %s for P=Base*%d (routes %d, %d)" % (type(ex).__name__, group, k, i, j))
                try:
                    if not (e1 == e2) or (e1 != e2):
                        return (True, "value-equal elements compare unequal on %s (P=Base*%d, routes %d, %d)" % (group, k, i, j))
                except Exception as ex:
                    return (True, "== raised %s" % type(ex).__name__)
    ra, rb, rc = reps(a), reps(b), reps(c)
    ea, eb, ec = ra[0], rb[1 % len(rb)], rc[2 % len(rc)]
    for (nn, mm) in [(n, m), (-n, m), (n, -m), (n * q, m), (-q, 2), (q, -1), (0, m), (n, 0), (-2 * q, -q)]:
        for nm, f in _laws(ea, eb, ec, Zero, Base, nn, mm, q):
            try:
                lhs, rhs = f()
                lb, rb = lhs.to_bytes(), rhs.to_bytes()
            except Exception as ex:
                return (True, "%s on %s with a=Base*%d b=Base*%d c=Base*%d n=%d m=%d raised %s" % (nm, group, a % q, b % q, c % q, nn, mm, type(ex).__name__))
            if lb != rb:
                return (True, "%s fails on %s with a=Base*%d b=Base*%d c=Base*%d n=%d m=%d" % (nm, group, a % q, b % q, c % q, nn, mm))
    logs = sorted({a % q, b % q, c % q, 1, 2, q - 1, (q + 1) // 2} - {0})
    scal = sorted({n, m, -n, n + q, 0, 1, -1, q - 1, q, q + 1, (q - 1) // 2, (q + 1) // 2, 2 ** 16, -(2 ** 70), 2 * q, -q})

    def chk(what, el, k):
        try:
            got = el().to_bytes() if callable(el) else el.to_bytes()
        except Exception as e:
            return "%s raised %s" % (what, type(e).__name__)
        if got != ref(k):
            return "%s has the wrong value" % what
        return None
    for ka in logs:
        A = Base.scalarmult(ka)
        for (what, f, k) in (
                ("(%d*B)+Zero" % ka, lambda: A.add(Zero), ka), ("Zero+(%d*B)" % ka, lambda: Zero.add(A), ka),
                ("P+P", lambda: A.add(A), 2 * ka), ("P+(-P)", lambda: A.add(A.scalarmult(-1)), 0),
                ("(P+Zero)*(-1)", lambda: A.add(Zero).scalarmult(-1), -ka),
                ("(P+Zero)+P", lambda: A.add(Zero).add(A), 2 * ka)):
            e = chk("%s on %s (P=Base*%d)" % (what, group, ka), f, k)
            if e:
                return (True, e)
        if hasattr(A, "negate"):
            e = chk("P.negate() on %s (P=Base*%d)" % (group, ka), lambda: A.negate(), -ka) or \
                chk("P.subtract(P) on %s" % group, lambda: A.subtract(A), 0) or \
                chk("(2P).subtract(P) on %s" % group, lambda: A.add(A).subtract(A), ka)
            if e:
                return (True, e)
        for s in scal:
            e = chk("(Base*%d).scalarmult(%d) on %s" % (ka, s, group), lambda: A.scalarmult(s), ka * s)
            if e:
                return (True, e)
        for kb in logs[:4]:
            Bq = Base.scalarmult(kb)
            e = chk("a+b on %s (a=Base*%d, b=Base*%d)" % (group, ka, kb), lambda: A.add(Bq), ka + kb)
            if e:
                return (True, e)
            if A.add(Bq).to_bytes() != Bq.add(A).to_bytes():
                return (True, "a+b != b+a on %s" % group)
            for s in scal[:6]:
                e = chk("(a+b)*n on %s" % group, lambda: A.add(Bq).scalarmult(s), (ka + kb) * s)
                if e:
                    return (True, e)
            # == and != are value equality
            X, Y = A.add(Bq), Bq.add(A)
            try:
                if not (X == Y) or (X != Y):
                    return (True, "value-equal elements compare unequal with ==/!= on %s (a+b vs b+a, a=Base*%d, b=Base*%d)" % (group, ka, kb))
                if ka != kb and ((A == Bq) or not (A != Bq)):
                    return (True, "different elements compare equal on %s" % group)
            except Exception as ex:
                return (True, "== raised %s on %s" % (type(ex).__name__, group))
        try:
            if g.bytes_to_element(A.to_bytes()).to_bytes() != A.to_bytes():
                return (True, "decode(encode(P)) != P on %s" % group)
        except Exception as ex:
            return (True, "decode(encode(P)) raised %s on %s" % (type(ex).__name__, group))
    e = chk("Base*q on %s" % group, lambda: Base.scalarmult(q), 0) or chk("Zero*5", lambda: Zero.scalarmult(5), 0) \
        or chk("Zero+Zero", lambda: Zero.add(Zero), 0) or chk("Base*0", lambda: Base.scalarmult(0), 0)
    if e:
        return (True, e)
    try:
        if not (Base.scalarmult(0) == Zero) or (Base.scalarmult(q) != Zero):
            return (True, "Base*0 == Zero is False on %s" % group)
    except Exception as ex:
        return (True, "== with Zero raised %s" % type(ex).__name__)
    return (False, "laws hold on the pool")


ORACLES = dict(laws=oracle_laws)
