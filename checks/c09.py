"""C09 -- restoring under the wrong role or parameters is always detected."""
import z3
from symx.core import Ctx, SymInt, SymBytes, SymBool, SymHex, T, B, model_int
from symx import loader, env
from symx.absgroup import AbsGroup
from symx.proto import (Entropy, setup_hash_axioms, outcome, okind, orders, new_instance, sym_inputs, klass, PEER,
                        SIDE_BYTE)

PID = "C09"
TECHNIQUE = 'symbolic execution of all 9 (saving role, restoring role) pairs under parameter sets differing in exactly one component; z3 with no-collision/injectivity axioms decides rejection or equivalence'
LEVEL_NOTE = 'different groups modelled as different widths or same field/other generator; known finding F7 (generator not fingerprinted)'
EXPLANATION = (
    "State saved by each real class K1 under an abstract parameter set P1 is offered to the real from_serialized() of "
    "each class K2 (all 9 ordered pairs) under a parameter set P2 that is the same, or differs in exactly one of "
    "M, N, S (a different subgroup element), in the generator only (same field and encoding), or in the group "
    "(different element/scalar width); password, identities and the secret scalar are symbolic, SHA-256 is "
    "uninterpreted with no collisions among the applications of the query. The solver proves on every path: a "
    "different role raises (WrongSideSerialized when A/B state is offered to another role); a difference in the "
    "group or in a blinding element the role uses raises WrongGroupError; and whenever an instance is returned its "
    "outbound message and the key it derives from an arbitrary symbolic inbound message equal the original's. Ground "
    "part: the real classes on the four shipped sets (every ordered pair of distinct sets and roles refuses). "
    "Known finding (DESIGN.md F7): parameter sets that differ only in the generator are not distinguished."
)
TRUSTED = ["abstract group contract GC; SHA-256 uninterpreted, no collisions among the applications of the query"]
ASSUMPTIONS = ["'different group' is modelled as different encoding widths, or same field with another generator; two "
               "unrelated groups of identical widths are only covered by the ground facts on the shipped sets"]

VARIANTS = ["same", "M", "N", "S", "MNcat", "MNswap", "gen", "group"]


def jobs(tier):
    js = []
    qs = ["11"] if tier == "quick" else ["11", "L", "q1024"]
    for qn in qs:
        for k1 in "ABS":
            for k2 in "ABS":
                vs = VARIANTS if k1 == k2 else ["same"]
                for v in vs:
                    js.append(("job_cross", dict(_name="q=%s saved=%s restored-as=%s P2=%s" % (qn, k1, k2, v),
                                                 qn=qn, k1=k1, k2=k2, variant=v)))
                    if qn == "11" and v in ("same", "group", "S", "M"):       # empty password and identities
                        js.append(("job_cross", dict(_name="q=%s saved=%s restored-as=%s P2=%s empty inputs" % (qn, k1, k2, v),
                                                     qn=qn, k1=k1, k2=k2, variant=v, lens=(0, 0, 0))))
    js.append(("job_shipped", dict(_name="shipped sets pairwise (ground)")))
    return js


def _uses(cls, v):
    return v in ("gen", "group") or (cls in "AB" and v in ("M", "N", "MNcat", "MNswap")) or (cls == "S" and v == "S")


def job_cross(J, qn, k1, k2, variant, lens=(1, 1, 1)):
    q = orders()[qn]
    P = loader.MODS["params"]
    J.bounds.update(q=qn, saved_by=k1, restored_by=k2, P2=variant, lens=lens)

    def h(ctx):
        setup_hash_axioms(ctx)
        g1 = AbsGroup(q, tag="G")
        p1 = P._Params(g1)
        if variant == "MNcat":
            # both blinding elements differ, but the seed strings have the same concatenation ('ab','c' vs 'a','bc')
            p1 = P._Params(g1, M=b"ab", N=b"c")
            p2 = P._Params(g1, M=b"a", N=b"bc")
            ctx.assume((p1.M.log - p2.M.log) % q != 0)
            ctx.assume((p1.N.log - p2.N.log) % q != 0)
        elif variant == "MNswap":
            # the same two elements with their roles exchanged
            p2 = P._Params(g1, M=b"N", N=b"M")
            ctx.assume((p1.M.log - p1.N.log) % q != 0)
        elif variant == "same":
            p2 = P._Params(g1)
        elif variant in ("M", "N", "S"):
            kw = {variant: {"M": b"M2", "N": b"N2", "S": b"symmetric2"}[variant]}
            p2 = P._Params(g1, **kw)
            e1, e2 = getattr(p1, variant), getattr(p2, variant)
            ctx.assume((e1.log - e2.log) % q != 0)           # a different subgroup element
        elif variant == "gen":
            gamma = ctx.fresh("gamma", 2, q - 1)              # Base' = gamma*Base, another generator of the same group
            g2 = AbsGroup(q, tag="G", base_log=gamma)
            p2 = P._Params(g2)
        else:
            g2 = AbsGroup(q * 65537, tag="H")                 # different widths (other field)
            p2 = P._Params(g2)
        pw, idA, idB = sym_inputs(lens)
        a = new_instance(k1, p1, pw, idA, idB, Entropy("ent"))
        own = SymBytes.of(a.start())
        blob = a.serialize()
        w = dict(a=a, own=own, pw=pw, idA=idA, idB=idB, p1=p1, p2=p2)
        ctx.data["w"] = w
        o = outcome(klass(k2).from_serialized, blob, params=p2)
        w["o"] = o
        if o[0] == "ret":
            b = o[1]
            W = p1.group.element_size_bytes
            msg = SymBytes([SIDE_BYTE[PEER[k1]]]) + SymBytes.fresh_chunk("body", W)
            w["oa"] = outcome(a.finish, msg)
            w["ob"] = outcome(b.finish, msg)
            return "instance", okind(w["oa"]), okind(w["ob"])
        return (o[1],)

    for r in J.explore(h):
        w = r.ctx.data.get("w")
        J.reach(r)
        cex = lambda m, w=w: _cex(w, m, k1, k2, variant)
        if r.kind != "ret":
            J.claim(r, "start/serialize do not raise (%s)" % type(r.value).__name__, False, cex=cex, oracle="wrongparams")
            continue
        kind = r.value[0]
        if k1 != k2:
            J.claim(r, "state saved by %s offered to %s raises (%s)" % (k1, k2, kind), kind != "instance", cex=cex,
                    oracle="wrongparams")
            if k1 in "AB":
                J.claim(r, "A/B state offered to another role raises WrongSideSerialized (%s)" % kind,
                        kind == "WrongSideSerialized", cex=cex, oracle="wrongparams")
            continue
        if _uses(k1, variant):
            J.claim(r, "P2 differs in %s used by %s: WrongGroupError (%s)" % (variant, k1, kind),
                    kind == "WrongGroupError", cex=cex, oracle="wrongparams")
            continue
        J.claim(r, "same role, P2 equal where it matters: an instance is returned (%s)" % kind, kind == "instance",
                cex=cex, oracle="wrongparams")
        if kind == "instance":
            b = w["o"][1]
            J.claim(r, "returned instance reproduces the original outbound message",
                    SymBytes.of(b.outbound_message).eq_term(w["own"][1:]), cex=cex, oracle="wrongparams")
            ka, kb = r.value[1], r.value[2]
            if ka != kb:
                J.claim(r, "returned instance ends like the original (%s vs %s)" % (ka, kb), False, cex=cex, oracle="wrongparams")
            elif ka == "key":
                J.claim(r, "returned instance derives the same key as the original",
                        SymBytes.of(w["oa"][1]).eq_term(w["ob"][1]), cex=cex, oracle="wrongparams")


def _cex(w, m, k1, k2, variant):
    if w is None:
        return dict(k1=k1, k2=k2, variant=variant, pw=b"p", idA=b"a", idB=b"b", x=3)
    return dict(k1=k1, k2=k2, variant=variant, pw=w["pw"].model_bytes(m), idA=w["idA"].model_bytes(m),
                idB=w["idB"].model_bytes(m), x=model_int(m, w["a"].xy_scalar) if hasattr(w["a"], "xy_scalar") else 3)


def job_shipped(J):
    """ground obligations on the real shipped objects: fingerprints pairwise different, cross restore refused"""
    S = loader.MODS["spake2"]
    sets = {"Ed25519": loader.MODS["parameters.ed25519"].ParamsEd25519, "I1024": loader.MODS["parameters.i1024"].Params1024,
            "I2048": loader.MODS["parameters.i2048"].Params2048, "I3072": loader.MODS["parameters.i3072"].Params3072}
    Ctx.cur = Ctx()
    fps = {}
    for nm, p in sets.items():
        for cls in "ABS":
            inst = new_instance(cls, p, b"pw", b"a", b"b", lambda n: bytes(n))
            fps[(nm, cls)] = inst.hash_params()
    for cls in "AS":
        names = list(sets)
        for i in range(len(names)):
            for j in range(i):
                J.ground("fingerprints of %s and %s differ (%s)" % (names[i], names[j], cls),
                         fps[(names[i], cls)] != fps[(names[j], cls)], oracle="shipped_cross", args=dict())
    for n1, p1 in sets.items():
        for n2, p2 in sets.items():
            if n1 == n2:
                continue
            for cls in "ABS":
                inst = new_instance(cls, p1, b"pw", b"a", b"b", lambda n: bytes(n))
                inst.start()
                o = outcome(klass(cls).from_serialized, inst.serialize(), params=p2)
                J.ground("%s state of %s refused under %s with WrongGroupError" % (cls, n1, n2),
                         o[0] == "exc" and o[1] == "WrongGroupError", oracle="shipped_cross", args=dict())
    Ctx.cur = None


# ------------------------------------------------------------------ oracles
def oracle_shipped_cross():
    from checks import common as C
    sp = C.S()
    K = {"A": sp.SPAKE2_A, "B": sp.SPAKE2_B, "S": sp.SPAKE2_Symmetric}
    sets = C.shipped_params()
    for n1, p1 in sets.items():
        for n2, p2 in sets.items():
            if n1 == n2:
                continue
            for cls in "ABS":
                inst = K[cls](b"pw", params=p1, entropy_f=lambda n: bytes(n))
                inst.start()
                try:
                    K[cls].from_serialized(inst.serialize(), params=p2)
                    return (True, "%s state of %s accepted under %s" % (cls, n1, n2))
                except sp.WrongGroupError:
                    pass
                except Exception as e:
                    return (True, "%s state of %s under %s raised %s instead of WrongGroupError" % (cls, n1, n2, type(e).__name__))
    return (False, "all refused")


def oracle_wrongparams(k1, k2, variant, pw, idA, idB, x):
    from checks import common as C
    from spake2.params import _Params
    from spake2.groups import IntegerGroup
    sp = C.S()
    K = {"A": sp.SPAKE2_A, "B": sp.SPAKE2_B, "S": sp.SPAKE2_Symmetric}
    worlds = []
    for nm in ("Ed25519", "I1024", "toy11", "toy1019"):
        p1 = C.params_by_name(nm)
        g = p1.group
        if variant == "MNcat":
            p1 = _Params(g, M=b"ab", N=b"c")
            p2 = _Params(g, M=b"a", N=b"bc")
        elif variant == "MNswap":
            p2 = _Params(g, M=b"N", N=b"M")
        elif variant == "same":
            p2 = _Params(g)
        elif variant in ("M", "N", "S"):
            p2 = _Params(g, **{variant: b"other seed"})
        elif variant == "gen":
            if not nm.startswith("toy"):
                continue
            p_, q_, g_ = C.TOYS[nm]
            p2 = _Params(IntegerGroup(p=p_, q=q_, g=pow(g_, 2, p_)))
        else:
            p2 = C.params_by_name("I2048" if nm != "I2048" else "I3072")
        worlds.append((nm, p1, p2))
        if k1 != k2:
            # wrong role combined with every kind of parameter relation (role x parameters cross product)
            d0 = C.params_by_name(nm)
            eq = _Params(g, M=b"x", N=b"x", S=b"x")
            worlds += [(nm, d0, _Params(g, M=b"N", N=b"M")), (nm, eq, eq), (nm, d0, _Params(g, M=b"symmetric", N=b"symmetric")),
                       (nm, _Params(g, S=b"M"), d0), (nm, _Params(g, M=b"N", N=b"M"), d0)]
    for nm, p1, p2 in worlds:
        q = C.group_order(p1.group)

        def mk(c, params, xx):
            e = C.entropy_for_scalar(params.group, xx)
            if c == "S":
                return K[c](pw, idSymmetric=idA, params=params, entropy_f=e)
            return K[c](pw, idA=idA, idB=idB, params=params, entropy_f=e)
        for xx in sorted({x % q, 1, 3 % q}):
            a = mk(k1, p1, xx)
            own = a.start()
            blob = a.serialize()
            try:
                b = K[k2].from_serialized(blob, params=p2)
            except Exception as e:
                kind = type(e).__name__
                if k1 != k2:
                    if k1 in "AB" and kind != "WrongSideSerialized":
                        return (True, "%s state offered to %s on %s raised %s, not WrongSideSerialized" % (k1, k2, nm, kind))
                    continue
                if _uses(k1, variant):
                    if kind != "WrongGroupError":
                        return (True, "%s state under P2 differing in %s on %s raised %s, not WrongGroupError" % (k1, variant, nm, kind))
                    continue
                return (True, "%s state refused (%s) under equivalent parameters (%s) on %s" % (k1, kind, variant, nm))
            if k1 != k2:
                return (True, "%s state accepted by %s on %s" % (k1, k2, nm))
            if _uses(k1, variant):
                detail = "%s state restored under parameters differing in %s on %s" % (k1, variant, nm)
                if variant == "gen":
                    detail += "; outbound %s -> %s" % (own.hex(), (b.side + b.outbound_message).hex())
                    return dict(violated=True, detail=detail, **{"class": "generator-only"})
                return (True, detail)
            if b.outbound_message != own[1:]:
                return (True, "restored instance sends a different message on %s (%s)" % (nm, variant))
            peer = mk(PEER[k1], p1, (xx + 1) % q).start()
            oa, ob = C.finish_outcome(a, peer), C.finish_outcome(b, peer)
            if oa != ob:
                return (True, "restored instance finishes differently on %s (%s): %s vs %s" % (nm, variant, oa[1], ob[1]))
    return (False, "as specified")


ORACLES = dict(wrongparams=oracle_wrongparams, shipped_cross=oracle_shipped_cross)
