"""C01 -- key agreement: matching inputs always yield the same session key."""
import z3
from symx.core import Ctx, SymInt, SymBytes, SymBool, Flags, T, B, PathAbort, model_int
from symx import loader, env
from symx.absgroup import AbsGroup, norm
from symx.proto import Entropy, setup_hash_axioms, outcome, okind

PID = "C01"
TECHNIQUE = 'symbolic execution of the real SPAKE2 classes on z3 proxies: abstract prime-order group (discrete-log polynomials) + real IntegerGroup in the exponent domain + real Ed25519 classes over abstract points; z3 decides key equality per path'
LEVEL_NOTE = 'SHA-256/HKDF uninterpreted; abstract group contract GC1-GC5; exponent laws of Z_p^*; kernel contracts K1-K5; q concrete per query (L, shipped q, toy); byte-string lengths from stated sets; first entropy draw accepted on integer groups'
EXPLANATION = (
    "The real SPAKE2_A/SPAKE2_B/SPAKE2_Symmetric classes and the real _Params (re-imported from /repo on every run) "
    "are executed symbolically: password, identities and both entropy streams are solver variables (so both secret "
    "scalars range over all of [0,q) including 0, 1, q-1, and the password scalar over [0,q) including 0), SHA-256 is "
    "an uninterpreted function, the group is either an abstract cyclic group of concrete prime order q whose elements "
    "are carried as discrete-log polynomials (contract GC, discharged for the real groups by the group-level jobs "
    "of this check and by C13/C15/C05), or the real IntegerGroup/Ed25519 element classes in the exponent domain. On "
    "every feasible path the solver must prove that both finish() calls return equal keys, or that the outcome is "
    "one of the allowed degenerate ones (both ReflectionThwarted with equal blinded elements; identity-rejecting "
    "group refusing an identity element); every other outcome pair must be unreachable. Optional serialize -> "
    "from_serialized between start and finish on either end goes through the same real code."
)
TRUSTED = ["SHA-256 as an uninterpreted function (determinism only is used here)",
           "abstract group contract GC1-GC5 (DESIGN.md 2.5) for the protocol-level jobs",
           "json.dumps/loads modelled as an opaque inverse pair when the dictionary holds symbolic hex text"]
ASSUMPTIONS = ["group order q concrete per query: L, the three shipped q, toy 11 and 65537 (symbolic q is outside)",
               "byte-string lengths from the stated sets"]

ORDERS = None


def _orders():
    G, E = loader.MODS["groups"], loader.MODS["ed25519_basic"]
    return {"L": E.L, "q1024": G.I1024.q, "q2048": G.I2048.q, "q3072": G.I3072.q, "11": 11, "65537": 65537}


LENS_QUICK = [(0, 0, 0), (1, 1, 2), (65, 2, 0)]
LENS_THOROUGH = [(0, 0, 0), (1, 1, 2), (3, 2, 1), (65, 0, 1), (130, 3, 3)]


def jobs(tier):
    js = []
    qs = ["L", "q1024", "11"] if tier == "quick" else ["L", "q1024", "q2048", "q3072", "11", "65537"]
    lens = LENS_QUICK if tier == "quick" else LENS_THOROUGH
    for qn in qs:
        for flavour in ("AB", "SS"):
            for ser in ((0, 0), (1, 0), (0, 1), (1, 1)):
                rej = [True] if qn == "L" else ([False, True] if qn == "11" else [False])
                for rj in rej:
                    for ln in (lens if ser == (0, 0) else lens[:2]):
                        js.append(("job_abstract", dict(
                            _name="abstract q=%s %s ser=%d%d rejectsZero=%d lens=%s" % (qn, flavour, ser[0], ser[1], rj, ln),
                            qn=qn, flavour=flavour, ser=ser, rej=rj, lens=ln)))
    from checks import realtier
    js += realtier.jobs_for("C01", tier)
    return js


def build_pair(ctx, params, flavour, lens, ser=(0, 0), paramsB=None):
    S = loader.MODS["spake2"]
    pw = SymBytes.fresh("pw", lens[0])
    idA = SymBytes.fresh("idA", lens[1])
    idB = SymBytes.fresh("idB", lens[2])
    eA, eB = Entropy("entA"), Entropy("entB")
    pB = paramsB or params
    ctx.data["w_in"] = dict(pw=pw, idA=idA, idB=idB)       # for counterexamples on paths that raise before the pair exists
    if flavour == "AB":
        KA, KB = S.SPAKE2_A, S.SPAKE2_B
        a = KA(pw, idA=idA, idB=idB, params=params, entropy_f=eA)
        b = KB(pw, idA=idA, idB=idB, params=pB, entropy_f=eB)
    else:
        KA = KB = S.SPAKE2_Symmetric
        a = KA(pw, idSymmetric=idA, params=params, entropy_f=eA)
        b = KB(pw, idSymmetric=idA, params=pB, entropy_f=eB)
    mA, mB = a.start(), b.start()
    if ser[0]:
        a = KA.from_serialized(a.serialize(), params=params)
    if ser[1]:
        b = KB.from_serialized(b.serialize(), params=pB)
    return dict(pw=pw, idA=idA, idB=idB, eA=eA, eB=eB, a=a, b=b, mA=mA, mB=mB)


def job_abstract(J, qn, flavour, ser, rej, lens):
    S, P = loader.MODS["spake2"], loader.MODS["params"]
    q = _orders()[qn]
    J.bounds.update(q=qn, flavour=flavour, serialize=ser, rejects_identity=rej,
                    lens=dict(pw=lens[0], idA=lens[1], idB=lens[2]))

    def h(ctx):
        setup_hash_axioms(ctx)
        g = AbsGroup(q, rejects_identity=rej)
        params = P._Params(g)
        w = build_pair(ctx, params, flavour, lens, ser)
        w["oA"] = outcome(w["a"].finish, w["mB"])
        w["oB"] = outcome(w["b"].finish, w["mA"])
        w["g"] = g
        ctx.data["w"] = w
        return okind(w["oA"]), okind(w["oB"])

    for r in J.explore(h, max_paths=200):
        if r.kind != "ret":
            J.claim(r, "session runs without %s" % type(r.value).__name__, False, cex=lambda m: _cex(r, m, qn, flavour, ser),
                    oracle="exchange")
            continue
        w = r.ctx.data["w"]
        kinds = r.value
        m = J.reach(r)
        cex = lambda m, r=r: _cex(r, m, qn, flavour, ser)
        if kinds == ("key", "key"):
            kA, kB = SymBytes.of(w["oA"][1]), SymBytes.of(w["oB"][1])
            J.claim(r, "both ends return a 32-byte key", len(kA) == 32 and len(kB) == 32, cex=cex, oracle="exchange")
            J.claim(r, "keys are equal", kA.eq_term(kB), cex=cex, oracle="exchange")
        elif kinds == ("ReflectionThwarted", "ReflectionThwarted"):
            J.claim(r, "ReflectionThwarted only when both blinded elements coincide",
                    SymBytes.of(w["mA"])[1:].eq_term(SymBytes.of(w["mB"])[1:]), cex=cex, oracle="exchange")
        elif rej and "ValueError" in kinds and all(k in ("ValueError", "key", "ReflectionThwarted") for k in kinds):
            # identity-rejecting group: allowed only if the refused element is the identity
            conds = []
            for side, peer in (("oA", "b"), ("oB", "a")):
                if w[side][0] == "exc" and w[side][1] == "ValueError":
                    conds.append(_msg_log(w, peer) % q == 0)
            J.claim(r, "ValueError only for an identity blinded element", z3.And(conds), cex=cex, oracle="exchange")
        else:
            J.claim(r, "outcome pair %s/%s is unreachable" % kinds, False, cex=cex, oracle="exchange")


def _msg_log(w, which):
    """discrete log of the blinded element an instance sent (abstract group)"""
    inst = w[which]
    return norm(inst.xy_elem.log + inst.my_blinding().log * T(inst.pw_scalar))


def _cex(r, m, qn, flavour, ser):
    w = r.ctx.data.get("w")
    if w is None:
        wi = r.ctx.data.get("w_in")
        if wi is None:
            return None
        return dict(flavour=flavour, ser=list(ser), pw=wi["pw"].model_bytes(m), idA=wi["idA"].model_bytes(m),
                    idB=wi["idB"].model_bytes(m), x=3, y=5, qn=qn, w=None)
    xs = {}
    for nm, inst in (("x", w["a"]), ("y", w["b"])):
        xs[nm] = model_int(m, inst.xy_scalar) if hasattr(inst, "xy_scalar") else 0
    return dict(flavour=flavour, ser=list(ser), pw=w["pw"].model_bytes(m), idA=w["idA"].model_bytes(m),
                idB=w["idB"].model_bytes(m), x=xs["x"], y=xs["y"], qn=qn,
                w=model_int(m, w["a"].pw_scalar))


# ------------------------------------------------------------------ oracle
def oracle_exchange(flavour, ser, pw, idA, idB, x, y, qn=None, w=None):
    """real exchange on every shipped parameter set and on toy groups with the model's inputs;
    violated if some run ends neither with equal keys nor with an allowed degenerate outcome"""
    from checks import common as C
    names = ["Ed25519", "I1024", "I2048", "I3072", "toy11", "toy1019"]
    for nm in names:
        params = C.params_by_name(nm)
        g = params.group
        q = C.group_order(g)
        pws = [pw]
        if nm.startswith("toy") and w is not None:
            alt = C.find_password_with_scalar(g, w % q, length=len(pw) if len(pw) in (1, 2, 3) else None)
            if alt is not None:
                pws.append(alt)
        for p_ in pws:
            for (xx, yy) in {(x % q, y % q), (0, y % q), (x % q, 0), (1, q - 1), (x % q, x % q)}:
                try:
                    res = C.run_exchange(flavour, params, p_, idA, idB, xx, yy, ser=tuple(bool(s) for s in ser))
                except Exception as e:
                    return (True, "%s raised during start/serialize on %s: %r" % (type(e).__name__, nm, e))
                oA, oB = res["oA"], res["oB"]
                if oA[0] == "key" and oB[0] == "key":
                    if oA[1] != oB[1] or len(oA[1]) != 32:
                        return (True, "keys differ on %s pw=%r idA=%r idB=%r x=%d y=%d ser=%s" % (nm, p_, idA, idB, xx, yy, ser))
                    continue
                if oA == oB == ("exc", "ReflectionThwarted") and res["mA"][1:] == res["mB"][1:]:
                    continue
                if nm == "Ed25519" and "ValueError" in (oA[1], oB[1]):
                    zero = g.Zero.to_bytes()
                    if (oA[1] == "ValueError" and res["mB"][1:] == zero) or (oB[1] == "ValueError" and res["mA"][1:] == zero):
                        continue
                return (True, "outcome %s/%s on %s pw=%r idA=%r idB=%r x=%d y=%d ser=%s" % (
                    oA[1] if oA[0] == "exc" else "key", oB[1] if oB[0] == "exc" else "key", nm, p_, idA, idB, xx, yy, ser))
    return (False, "all runs agree")


ORACLES = dict(exchange=oracle_exchange)
from checks.realtier import rt_agree, ORACLES as _RT      # noqa: E402  (job functions are looked up in this module)
ORACLES.update(_RT)
