"""C03 -- messages and keys conform to the published SPAKE2 definition (interop)."""
import z3
from symx.core import Ctx, SymInt, SymBytes, SymBool, T, B, model_int
from symx import loader, env
from symx.absgroup import AbsGroup, norm
from symx.proto import (Entropy, setup_hash_axioms, outcome, okind, orders, new_instance, restore, sym_inputs,
                        abstract_params, klass, PEER, SIDE_BYTE)
from checks import published_constants as PC

PID = "C03"
TECHNIQUE = 'differential symbolic execution: real classes vs a reference model written from the property text, equality of message and key terms decided by z3 on every path (abstract group, real integer groups in the exponent domain, Ed25519 over abstract points); ground comparison with pinned published constants'
LEVEL_NOTE = 'published constants as pinned in checks/published_constants.py; SHA-256/HKDF uninterpreted; GC contract'
EXPLANATION = (
    "Differential check against a short reference model written from the property text. The real classes (fresh and "
    "restored) run over the abstract prime-order group with symbolic password, identities, entropy and an arbitrary "
    "symbolic inbound message; the reference model computes, on the same symbols, message = side || enc(x*G + w*M|N|S) "
    "with w = password_to_scalar(pw), x = random_scalar(entropy) and M, N, S = arbitrary_element(b'M' | b'N' | "
    "b'symmetric'), and key = SHA256(SHA256(pw) || SHA256(idA) || SHA256(idB) || X* || Y* || K) (symmetric: SHA256(pw) || "
    "SHA256(idS) || sorted messages || K) with K = enc(x*(peer - w*N|M|S)); the solver proves equality of messages and "
    "keys on every returning path, and that _Params requests exactly those seeds. The same comparison runs on the real "
    "IntegerGroup objects in the exponent domain and on the real Ed25519 element classes over abstract points (real "
    "password_to_scalar, random_scalar, scalarmult, add, to_bytes). Ground obligations regenerated from source: p, q, g "
    "of the three integer groups, Q, L, d, base point, M/N/S encodings and message sizes 33/129/257/385 equal the "
    "published values pinned in checks/published_constants.py, and the released end-to-end vectors reproduce."
)
TRUSTED = ["abstract group contract GC; SHA-256/HKDF uninterpreted", "published constants as pinned (cross-checked once "
           "against an independent implementation, RFC 8032 and the suite's compat vectors)"]
ASSUMPTIONS = ["q concrete per query; pw/id lengths from the stated sets"]


def jobs(tier):
    js = []
    qs = ["11", "L"] if tier == "quick" else ["11", "L", "q1024", "q2048", "q3072", "65537"]
    lens_all = [(1, 1, 2), (0, 0, 0), (65, 0, 1)] if tier == "quick" else [(1, 1, 2), (0, 0, 0), (3, 2, 1), (65, 3, 0), (130, 1, 1)]
    for qn in qs:
        for cls in "ABS":
            for restored in (0, 1):
                for lens in lens_all:
                    js.append(("job_conform", dict(_name="abstract q=%s %s restored=%d lens=%s" % (qn, cls, restored, lens),
                                                   qn=qn, cls=cls, restored=restored, lens=lens)))
                if qn == "11":     # custom seeds, including the empty seed
                    for seeds in ((b"", b"N2", b""), (b"M2", b"", b"s")):
                        js.append(("job_conform", dict(_name="abstract q=%s %s restored=%d custom seeds %r" % (qn, cls, restored, seeds),
                                                       qn=qn, cls=cls, restored=restored, lens=(1, 1, 2), seeds=seeds)))
    js.append(("job_constants", dict(_name="published constants and vectors (ground)")))
    for g in ("toy11", "I1024", "Ed25519"):
        js.append(("job_matrix", dict(_name="session matrix on the plain package: %s (ground)" % g, gname=g)))
    from checks import realtier
    js += realtier.jobs_for("C03", tier)
    return js


def reference_message(cls, params, pw, ent_bytes, seeds=(b"M", b"N", b"symmetric")):
    g = params.group
    x = g.RS(z3.simplify(SymBytes.of(ent_bytes).value()))
    w = T(g.password_to_scalar(pw))
    seed = {"A": seeds[0], "B": seeds[1], "S": seeds[2]}[cls]
    mu = z3.Int("dlog_%s_%s" % (g.tag, seed.hex()))
    return x, w, norm(x + w * mu)


def job_conform(J, qn, cls, restored, lens, seeds=(b"M", b"N", b"symmetric")):
    q = orders()[qn]
    J.bounds.update(q=qn, cls=cls, restored=restored, lens=lens)

    def h(ctx):
        setup_hash_axioms(ctx)
        if tuple(seeds) == (b"M", b"N", b"symmetric"):
            params = abstract_params(q, rejects_identity=(qn == "L"))
        else:
            params = abstract_params(q, rejects_identity=(qn == "L"), M=seeds[0], N=seeds[1], S=seeds[2])
        g = params.group
        W = g.element_size_bytes
        pw, idA, idB = sym_inputs(lens)
        ent = Entropy("ent")
        a = new_instance(cls, params, pw, idA, idB, ent)
        msg = SymBytes.of(a.start())
        if restored:
            a = restore(cls, a, params)
        inbound = SymBytes([SIDE_BYTE[PEER[cls]]]) + SymBytes.fresh_chunk("body", W)
        w = dict(a=a, msg=msg, pw=pw, idA=idA, idB=idB, ent=ent, params=params, inbound=inbound)
        ctx.data["w"] = w
        w["o"] = outcome(a.finish, inbound)
        return okind(w["o"])

    for r in J.explore(h):
        w = r.ctx.data.get("w")
        J.reach(r)
        cex = lambda m, w=w: _cex(w, m, cls, restored)
        if r.kind != "ret":
            J.claim(r, "start() does not raise (%s)" % type(r.value).__name__, False, cex=cex, oracle="conform")
            continue
        params, g = w["params"], w["params"].group
        asked = sorted({s for (gg, s, v) in r.ctx.table("seeds")})
        J.claim(r, "_Params derives M, N, S from exactly the seeds it was given %r" % (seeds,),
                asked == sorted(set(seeds)) or asked == sorted(set(seeds) | {b""}), cex=cex, oracle="conform")
        J.claim(r, "exactly one entropy request", len(w["ent"].calls) == 1, cex=cex, oracle="conform")
        if len(w["ent"].calls) != 1:
            continue
        x, wsc, mlog = reference_message(cls, params, w["pw"], w["ent"].calls[0][1], seeds)
        ref_msg = SymBytes([SIDE_BYTE[cls]]) + g._encode(type(g.Base)(g, mlog))
        J.claim(r, "start() message = side byte || enc(x*G + w*%s)" % {"A": "M", "B": "N", "S": "S"}[cls],
                w["msg"].eq_term(ref_msg), cex=cex, oracle="conform")
        J.claim(r, "message length is 1 + element size", len(w["msg"]) == 1 + g.element_size_bytes, cex=cex, oracle="conform")
        if r.value == "key":
            body = w["inbound"][1:]
            peer = g.bytes_to_element(body)                   # contract GC3: decoding is a function of the bytes
            useed = {"A": seeds[1], "B": seeds[0], "S": seeds[2]}[cls]
            mu_u = z3.Int("dlog_%s_%s" % (g.tag, useed.hex()))
            K = g._encode(type(g.Base)(g, norm((peer.log - wsc * mu_u) * x)))
            H = env.sha_term
            own = ref_msg[1:]
            cat = lambda *ps: _cat(ps)
            if cls == "A":
                ref = H(cat(H(w["pw"]), H(w["idA"]), H(w["idB"]), own, body, K))
                J.claim(r, "finish() key = SHA256(SHA256(pw)||SHA256(idA)||SHA256(idB)||X*||Y*||K), K = enc(x*(Y* - w*N))",
                        SymBytes.of(w["o"][1]).eq_term(ref), cex=cex, oracle="conform")
            elif cls == "B":
                ref = H(cat(H(w["pw"]), H(w["idA"]), H(w["idB"]), body, own, K))
                J.claim(r, "finish() key = SHA256(SHA256(pw)||SHA256(idA)||SHA256(idB)||X*||Y*||K), K = enc(y*(X* - w*M))",
                        SymBytes.of(w["o"][1]).eq_term(ref), cex=cex, oracle="conform")
            else:
                r1 = H(cat(H(w["pw"]), H(w["idA"]), own, body, K))
                r2 = H(cat(H(w["pw"]), H(w["idA"]), body, own, K))
                own_first = z3.Or(own.lt_term(body, True), own.eq_term(body))
                key = SymBytes.of(w["o"][1])
                J.claim(r, "finish() key = SHA256(SHA256(pw)||SHA256(idS)||sorted messages||K), K = enc(x*(peer - w*S))",
                        z3.If(own_first, key.eq_term(r1), key.eq_term(r2)), cex=cex, oracle="conform")


def _cat(parts):
    acc = SymBytes([])
    for p in parts:
        acc = acc + SymBytes.of(p)
    return acc


def _cex(w, m, cls, restored):
    if w is None:
        return dict(cls=cls, restored=restored, pw=b"pw", idA=b"a", idB=b"b", x=5)
    return dict(cls=cls, restored=restored, pw=w["pw"].model_bytes(m), idA=w["idA"].model_bytes(m), idB=w["idB"].model_bytes(m),
                x=model_int(m, w["a"].xy_scalar, 5) if hasattr(w["a"], "xy_scalar") else 5)


def job_matrix(J, gname):
    """ground: many sessions in one process (custom seeds, roles, passwords, id splits, restore), identical entropy, each
    compared with the by-the-book reference -- state leaking between sessions shows as a disagreement"""
    from checks import matrix
    r = matrix.session_matrix((gname,))
    J.ground("every session of the matrix on %s (run in one process, both orders) matches the published definition" % gname,
             r is None, r, oracle="conform", args=dict(cls="A", restored=0, pw=b"pw", idA=b"a", idB=b"b", x=3))


def job_constants(J):
    G, E = loader.MODS["groups"], loader.MODS["ed25519_basic"]
    for nm in ("I1024", "I2048", "I3072"):
        g, ref = getattr(G, nm), PC.INT_GROUPS[nm]
        for k, v in (("p", g.p), ("q", g.q), ("g", g.Base._e)):
            J.ground("%s.%s equals the published constant" % (nm, k), v == ref[k], oracle="constants", args={})
        J.ground("%s message size is %d" % (nm, PC.MESSAGE_SIZES[nm]), 1 + g.element_size_bytes == PC.MESSAGE_SIZES[nm]
                 and g.element_size_bytes == (ref["p"].bit_length() + 7) // 8, oracle="constants", args={})
    ed = PC.ED25519
    J.ground("Q, L, d, base point equal the RFC 8032 values", E.Q == ed["Q"] and E.L == ed["L"] and E.d % E.Q == ed["d"]
             and E.B[0] % E.Q == ed["Bx"] and E.B[1] % E.Q == ed["By"] and E.Base.to_bytes().hex() == ed["base_hex"],
             oracle="constants", args={})
    EG = loader.MODS["ed25519_group"].Ed25519Group
    J.ground("Ed25519 message size is 33", 1 + EG.element_size_bytes == 33 and EG.scalar_size_bytes == 32, oracle="constants", args={})
    v, detail = oracle_constants()
    J.ground("published constants, M/N/S and released end-to-end vectors on the plain package", not v, detail,
             oracle="constants", args={})


# ------------------------------------------------------------------ oracles
def oracle_conform(cls, restored, pw, idA, idB, x):
    """real start()/finish() against the by-the-book reference on all shipped sets and a toy group"""
    from checks import common as C, refimpl as R
    sp = C.S()
    K = {"A": sp.SPAKE2_A, "B": sp.SPAKE2_B, "S": sp.SPAKE2_Symmetric}
    pc = PEER[cls]
    for nm in ("Ed25519", "I1024", "I2048", "I3072", "toy11"):
        params = C.params_by_name(nm)
        if nm == "Ed25519":
            rg = R.RefEdGroup()
        elif nm == "toy11":
            rg = R.RefIntGroup(23, 11, 2)
        else:
            d = PC.INT_GROUPS[nm]
            rg = R.RefIntGroup(d["p"], d["q"], d["g"])
        q = rg.q
        for (p_, ia, ib) in [(pw, idA, idB), (pw + b"\x00" * 65, ia_ := idA, idB), (b"", b"", b"")]:
            for xx in sorted({x % q, 0, 1, q - 1}):
                def mk(c, sc):
                    e = C.entropy_for_scalar(params.group, sc)
                    if c == "S":
                        return K[c](p_, idSymmetric=ia, params=params, entropy_f=e)
                    return K[c](p_, idA=ia, idB=ib, params=params, entropy_f=e)
                a = mk(cls, xx)
                try:
                    msg = a.start()
                except Exception as e:
                    return (True, "start() raised %r on %s" % (e, nm))
                want = R.spake2_message(rg, cls, p_, xx)
                if msg != want:
                    return (True, "start() message differs from the published definition on %s class %s pw=%r x=%d: %s vs %s" % (
                        nm, cls, p_, xx, msg.hex()[:40], want.hex()[:40]))
                if restored:
                    a = K[cls].from_serialized(a.serialize(), params=params)
                first = (xx + 3) % q
                for k_, yy in enumerate([first] + [y_ for y_ in (0, 1, q - 1) if y_ != first]):
                    inst = a
                    if k_ > 0:              # finish() is single use: every further peer message gets its own instance
                        inst = mk(cls, xx)
                        inst.start()
                        if restored:
                            inst = K[cls].from_serialized(inst.serialize(), params=params)
                    inbound = R.spake2_message(rg, pc, p_, yy)
                    wantk = R.spake2_key(rg, cls, p_, ia, ib, xx, inbound)
                    o = C.finish_outcome(inst, inbound)
                    if wantk is None or inbound[1:] == msg[1:]:
                        if o[0] == "key":
                            return (True, "finish() returned a key for a refused element on %s" % nm)
                        continue
                    if o[0] != "key" or o[1] != wantk:
                        return (True, "finish() key differs from the published definition on %s class %s pw=%r idA=%r idB=%r x=%d peer scalar %d (%s)" % (
                            nm, cls, p_, ia, ib, xx, yy, o[1] if o[0] == "exc" else o[1].hex()[:16]))
    bad = known_log_ed_coincidences(cls, restored, pw, idA, idB)
    if bad:
        return (True, bad)
    from checks import matrix
    r = matrix.session_matrix()
    if r:
        return (True, r)
    return (False, "conforms")


def known_log_ed_coincidences(cls, restored, pw, idA, idB):
    """Ed25519 sessions in which two operands of a group operation are the same point reached by different routes:
    x*G == w*M in start(), peer element == -w*N (so the unblinded element is the identity's neighbour cases) and
    peer element == w*N's negative double in finish().  Such scalars need log_G(M); the shipped M, N, S have unknown logs,
    so a custom parameter set is used whose group object is the real Ed25519 wrapper with arbitrary_element(seed) :=
    H(seed)*G (every other operation is the tree's own)."""
    import hashlib
    from checks import common as C, refimpl as R
    from spake2 import ed25519_basic as E
    from spake2.ed25519_group import Ed25519Group
    from spake2.params import _Params
    sp = C.S()
    K = {"A": sp.SPAKE2_A, "B": sp.SPAKE2_B, "S": sp.SPAKE2_Symmetric}
    Lq = R.L
    mu = lambda seed: int.from_bytes(hashlib.sha256(b"known log " + seed).digest(), "big") % Lq or 1

    class KnownLog(type(Ed25519Group)):
        def arbitrary_element(self, seed):
            return E.Base.scalarmult(mu(seed))
    g = KnownLog()
    for k_, v_ in vars(Ed25519Group).items():
        setattr(g, k_, v_)
    for k_ in ("Base", "Zero", "scalar_size_bytes", "element_size_bytes"):
        if not hasattr(g, k_):
            setattr(g, k_, getattr(Ed25519Group, k_))
    try:
        params = _Params(g)
    except Exception as ex:
        return None                         # the wrapper cannot be specialised on this tree: nothing to report here
    logs = {"M": mu(b"M"), "N": mu(b"N"), "S": mu(b"symmetric")}
    mine = {"A": "M", "B": "N", "S": "S"}[cls]
    theirs = {"A": "N", "B": "M", "S": "S"}[cls]
    w = g.password_to_scalar(pw)
    enc = lambda k: R.ed_enc(R.ed_mul(R.ED_BASE, k % Lq))
    h = lambda b: hashlib.sha256(b).digest()
    x0 = (w * logs[mine]) % Lq                                     # x0*G == w*M
    for x in (x0, (x0 + 1) % Lq, (-x0) % Lq):
        def mk():
            e = C.entropy_for_scalar(g, x)
            a = K[cls](pw, idSymmetric=idA, params=params, entropy_f=e) if cls == "S" else K[cls](pw, idA=idA, idB=idB, params=params, entropy_f=e)
            return a
        a = mk()
        try:
            msg = a.start()
        except Exception as ex:
            return "start() raised %s on Ed25519 (known-log parameter set) for the secret scalar x with x*G = w*%s + %d*G" % (
                type(ex).__name__, mine, (x - x0) % Lq)
        own_log = (x + w * logs[mine]) % Lq
        if msg[1:] != enc(own_log):
            return ("start() message differs from x*G + w*%s on Ed25519 (known-log parameter set, pw=%r) when x*G and w*%s are the same "
                    "point reached by different routes: got %s" % (mine, pw, mine, msg[1:].hex()[:32]))
        # peer elements that coincide with the unblinding term or make the unblinded element special
        for ylog in ((-w * logs[theirs]) % Lq, (w * logs[theirs] + 1) % Lq, (2 * w * logs[theirs]) % Lq, (own_log + 1) % Lq):
            if ylog == own_log or ylog == 0:
                continue
            inst = mk()
            inst.start()
            if restored:
                inst = K[cls].from_serialized(inst.serialize(), params=params)
            body = enc(ylog)
            inbound = {"A": b"B", "B": b"A", "S": b"S"}[cls] + body
            o = C.finish_outcome(inst, inbound)
            Kb = enc(x * (ylog - w * logs[theirs]))
            if cls == "A":
                want = h(h(pw) + h(idA) + h(idB) + msg[1:] + body + Kb)
            elif cls == "B":
                want = h(h(pw) + h(idA) + h(idB) + body + msg[1:] + Kb)
            else:
                first, second = sorted([msg[1:], body])
                want = h(h(pw) + h(idA) + first + second + Kb)
            if o[0] != "key" or o[1] != want:
                return ("finish() key differs from the published definition on Ed25519 (known-log parameter set, pw=%r) for the peer element "
                        "%s, chosen to coincide with a multiple of w*%s: %s" % (pw, body.hex()[:16], theirs, o[1] if o[0] == "exc" else "key " + o[1].hex()[:16]))
    return None


def oracle_constants():
    from spake2 import groups as G, ed25519_basic as E
    from checks import common as C, refimpl as R
    from spake2.spake2 import SPAKE2_A, SPAKE2_B, SPAKE2_Symmetric
    for nm in ("I1024", "I2048", "I3072"):
        g, ref = getattr(G, nm), PC.INT_GROUPS[nm]
        if (g.p, g.q, g.Base._e) != (ref["p"], ref["q"], ref["g"]):
            return (True, "%s: p, q or g differ from the published constants" % nm)
        if g.element_size_bytes + 1 != PC.MESSAGE_SIZES[nm]:
            return (True, "%s: message size" % nm)
    ed = PC.ED25519
    if E.Q != ed["Q"] or E.L != ed["L"] or E.d % E.Q != ed["d"] or E.Base.to_bytes().hex() != ed["base_hex"]:
        return (True, "Ed25519 curve constants differ from RFC 8032")
    for nm, P in C.shipped_params().items():
        ref = ed if nm == "Ed25519" else PC.INT_GROUPS[nm]
        for k in "MNS":
            if getattr(P, k).to_bytes().hex() != ref[k]:
                return (True, "%s.%s differs from the released constant" % (nm, k))
    # custom parameter sets built BEFORE the shipped parameter modules are first imported (fresh interpreter)
    got = C.fresh_import_order_check()
    if "error" in got:
        return (True, "building custom parameter sets before importing the shipped ones failed: %s" % got["error"])
    for nm, vals in got.items():
        ref = ed if "Ed25519" in nm else PC.INT_GROUPS[nm.split()[-1]]
        if vals != [ref["M"], ref["N"], ref["S"]]:
            return (True, "%s parameter set built/imported after custom parameter sets has M/N/S different from the released constants" % nm)
    # released vectors (scalars from the suite's compat test)
    x = 2611694063369306139794446498317402240796898290761098242657700742213257926693
    y = 7002393159576182977806091886122272758628412261510164356026361256515836884383
    P = C.shipped_params()["Ed25519"]
    a = SPAKE2_A(b"password", params=P, entropy_f=C.entropy_for_scalar(P.group, x))
    b = SPAKE2_B(b"password", params=P, entropy_f=C.entropy_for_scalar(P.group, y))
    ma, mb = a.start(), b.start()
    if ma.hex() != "416fc960df73c9cf8ed7198b0c9534e2e96a5984bfc5edc023fd24dacf371f2af9" or \
            mb.hex() != "42354e97b88406922b1df4bea1d7870f17aed3dba7c720b313edae315b00959309":
        return (True, "released Ed25519 message vector does not reproduce")
    if a.finish(mb).hex() != "a480bca13fa04464bb644f10e340125e96c9494f7399fef7c2bda67eb0fdf06d":
        return (True, "released Ed25519 key vector does not reproduce")
    return (False, "constants as published")


ORACLES = dict(conform=oracle_conform, constants=oracle_constants)
from checks.realtier import rt_conform, ORACLES as _RT      # noqa: E402
ORACLES.update(_RT)
