"""C17 -- the transcript hash binds every field and is order-independent when symmetric."""
import itertools
import z3
from symx.core import Ctx, SymInt, SymBytes, SymBool, T, B, model_int
from symx import loader, env
from symx.proto import setup_hash_axioms, outcome

PID = "C17"
TECHNIQUE = 'symbolic execution of the two transcript functions with SHA-256 uninterpreted; z3 decides equality with the reference term, symmetry, and injectivity under no-collision axioms'
LEVEL_NOTE = 'no collisions among the <= 10 hash applications of a query; argument lengths from stated sets'
EXPLANATION = (
    "The real finalize_SPAKE2 and finalize_SPAKE2_symmetric (re-imported from /repo) run on symbolic byte strings of "
    "the stated lengths with SHA-256 as an uninterpreted function per input length. The solver proves (a) equality "
    "with the reference term SHA256(SHA256(pw)||SHA256(idA)||SHA256(idB)||X||Y||K) resp. SHA256(SHA256(pw)||"
    "SHA256(idS)||min||max||K) where min/max is bytewise lexicographic order, on every path of the real sorted(); "
    "(b) invariance of the symmetric form under exchanging the two messages; (c) for two calls whose X, Y, K have "
    "the same fixed widths: equal digests imply all six (five) arguments equal, assuming no collision among the hash "
    "applications of the query. Argument lengths are concrete per query (sets listed in bounds), contents symbolic."
)
TRUSTED = ["SHA-256 as an uninterpreted function; (c) additionally assumes no collision among the <= 10 applications"]
ASSUMPTIONS = ["argument lengths drawn from the stated sets; contents arbitrary"]


def jobs(tier):
    W = (2, 5) if tier == "quick" else (2, 5, 33)
    lens = [(0, 0, 0), (1, 2, 1), (3, 1, 2), (65, 0, 3)]
    js = []
    for w in W:
        for ln in lens:
            js.append(("job_asym_ref", dict(_name="asym ref pw,idA,idB=%s W=%d" % (ln, w), lens=ln, w=w)))
            js.append(("job_sym_ref", dict(_name="sym ref pw,idS=%s W=%d" % (ln[:2], w), lens=ln[:2], w=w, w2=w)))
    js.append(("job_matrix", dict(_name="many calls in one process with related arguments (ground)")))
    js.append(("job_sym_ref", dict(_name="sym ref unequal widths 3/5", lens=(1, 1), w=3, w2=5)))
    js.append(("job_sym_ref", dict(_name="sym ref unequal widths 5/2", lens=(1, 1), w=5, w2=2)))
    js.append(("job_sym_ref", dict(_name="sym ref empty/2", lens=(1, 1), w=0, w2=2)))
    pairs = [((1, 2, 1), (1, 1, 2)), ((1, 2, 1), (1, 2, 1)), ((0, 0, 0), (0, 0, 0)), ((2, 0, 3), (3, 2, 0)),
             ((65, 1, 1), (1, 1, 65))]
    if tier == "thorough":
        pairs += [((a, b, c), (d, e, f)) for (a, b, c, d, e, f) in itertools.product((0, 2), repeat=6)][:40]
    for (l1, l2) in pairs:
        js.append(("job_asym_bind", dict(_name="asym binding %s vs %s" % (l1, l2), l1=l1, l2=l2, w=4)))
        js.append(("job_sym_bind", dict(_name="sym binding %s vs %s" % (l1[:2], l2[:2]), l1=l1[:2], l2=l2[:2], w=4)))
    return js


def job_matrix(J):
    from checks import matrix
    r = matrix.finalize_matrix()
    J.ground("finalize functions called repeatedly in one process with colliding / re-split / swapped arguments always equal "
             "the reference", r is None, r, oracle="finalize", args=dict(kind="asym", a=[b"ab", b"c", b"XXXX", b"YYYY", b"KKKK", b"pw"]))


def _args(ctx, tag, lens, w, w2=None, wk=None):
    pw = SymBytes.fresh(tag + "pw", lens[0])
    ids = [SymBytes.fresh(tag + "id%d" % i, n) for i, n in enumerate(lens[1:])]
    X = SymBytes.fresh(tag + "X", w)
    Y = SymBytes.fresh(tag + "Y", w if w2 is None else w2)
    K = SymBytes.fresh(tag + "K", w if wk is None else wk)
    return pw, ids, X, Y, K


def _cat(*parts):
    acc = SymBytes([])
    for p in parts:
        acc = acc + SymBytes.of(p)
    return acc


def _mb(m, *bs):
    return [b.model_bytes(m) for b in bs]


def job_asym_ref(J, lens, w):
    S = loader.MODS["spake2"]
    J.bounds.update(lens=dict(pw=lens[0], idA=lens[1], idB=lens[2], X=w, Y=w, K=w))

    def h(ctx):
        pw, (idA, idB), X, Y, K = _args(ctx, "", lens, w)
        ctx.data["a"] = (pw, idA, idB, X, Y, K)
        return S.finalize_SPAKE2(idA, idB, X, Y, K, pw)
    for r in J.explore(h):
        pw, idA, idB, X, Y, K = r.ctx.data["a"]
        J.reach(r)
        cex = lambda m: dict(kind="asym", a=_mb(m, idA, idB, X, Y, K, pw))
        if r.kind != "ret":
            J.claim(r, "finalize_SPAKE2 does not raise", False, cex=cex, oracle="finalize")
            continue
        ref = env.sha_term(_cat(env.sha_term(pw), env.sha_term(idA), env.sha_term(idB), X, Y, K))
        key = SymBytes.of(r.value)
        J.claim(r, "key is 32 bytes", len(key) == 32, cex=cex, oracle="finalize")
        J.claim(r, "key == SHA256(SHA256(pw)||SHA256(idA)||SHA256(idB)||X||Y||K)", key.eq_term(ref), cex=cex,
                oracle="finalize")


def job_sym_ref(J, lens, w, w2):
    S = loader.MODS["spake2"]
    J.bounds.update(lens=dict(pw=lens[0], idS=lens[1], m1=w, m2=w2, K=max(w, 1)))

    def h(ctx):
        pw, (idS,), m1, m2, K = _args(ctx, "", lens, w, w2, wk=max(w, 1))
        ctx.data["a"] = (pw, idS, m1, m2, K)
        return S.finalize_SPAKE2_symmetric(idS, m1, m2, K, pw), S.finalize_SPAKE2_symmetric(idS, m2, m1, K, pw)
    for r in J.explore(h):
        pw, idS, m1, m2, K = r.ctx.data["a"]
        J.reach(r)
        cex = lambda m: dict(kind="sym", a=_mb(m, idS, m1, m2, K, pw))
        if r.kind != "ret":
            J.claim(r, "finalize_SPAKE2_symmetric does not raise", False, cex=cex, oracle="finalize")
            continue
        k12, k21 = SymBytes.of(r.value[0]), SymBytes.of(r.value[1])
        lo12 = env.sha_term(_cat(env.sha_term(pw), env.sha_term(idS), m1, m2, K))
        lo21 = env.sha_term(_cat(env.sha_term(pw), env.sha_term(idS), m2, m1, K))
        m1_first = z3.Or(m1.lt_term(m2, True), m1.eq_term(m2)) if len(m1) == len(m2) else m1.lt_term(m2, True)
        ref = z3.If(m1_first, k12.eq_term(lo12), k12.eq_term(lo21))
        J.claim(r, "key == SHA256(SHA256(pw)||SHA256(idS)||min(m1,m2)||max(m1,m2)||K), bytewise order", ref, cex=cex,
                oracle="finalize")
        J.claim(r, "symmetric form invariant under exchanging m1 and m2", k12.eq_term(k21), cex=cex, oracle="finalize")


def job_asym_bind(J, l1, l2, w):
    S = loader.MODS["spake2"]
    J.bounds.update(call1=l1, call2=l2, X=w, Y=w, K=w)
    J.assumptions.add("no collision among the SHA-256 applications of the query")

    def h(ctx):
        setup_hash_axioms(ctx)
        a1 = _args(ctx, "p", l1, w)
        a2 = _args(ctx, "q", l2, w)
        ctx.data["a"] = (a1, a2)
        k1 = S.finalize_SPAKE2(a1[1][0], a1[1][1], a1[2], a1[3], a1[4], a1[0])
        k2 = S.finalize_SPAKE2(a2[1][0], a2[1][1], a2[2], a2[3], a2[4], a2[0])
        return k1, k2
    for r in J.explore(h):
        a1, a2 = r.ctx.data["a"]
        J.reach(r)
        if r.kind != "ret":
            J.claim(r, "finalize_SPAKE2 does not raise", False)
            continue
        same = z3.And(a1[0].eq_term(a2[0]), a1[1][0].eq_term(a2[1][0]), a1[1][1].eq_term(a2[1][1]),
                      a1[2].eq_term(a2[2]), a1[3].eq_term(a2[3]), a1[4].eq_term(a2[4]))
        cex = lambda m: dict(kind="asym2", a=_mb(m, a1[1][0], a1[1][1], a1[2], a1[3], a1[4], a1[0]),
                             b=_mb(m, a2[1][0], a2[1][1], a2[2], a2[3], a2[4], a2[0]))
        J.claim(r, "equal keys => identical (pw, idA, idB, X, Y, K)",
                z3.Implies(SymBytes.of(r.value[0]).eq_term(r.value[1]), same), cex=cex, oracle="finalize")


def job_sym_bind(J, l1, l2, w):
    S = loader.MODS["spake2"]
    J.bounds.update(call1=l1, call2=l2, m=w, K=w)
    J.assumptions.add("no collision among the SHA-256 applications of the query")

    def h(ctx):
        setup_hash_axioms(ctx)
        a1 = _args(ctx, "p", l1, w)
        a2 = _args(ctx, "q", l2, w)
        ctx.data["a"] = (a1, a2)
        k1 = S.finalize_SPAKE2_symmetric(a1[1][0], a1[2], a1[3], a1[4], a1[0])
        k2 = S.finalize_SPAKE2_symmetric(a2[1][0], a2[2], a2[3], a2[4], a2[0])
        return k1, k2
    for r in J.explore(h):
        a1, a2 = r.ctx.data["a"]
        J.reach(r)
        if r.kind != "ret":
            J.claim(r, "finalize_SPAKE2_symmetric does not raise", False)
            continue
        msgs = z3.Or(z3.And(a1[2].eq_term(a2[2]), a1[3].eq_term(a2[3])), z3.And(a1[2].eq_term(a2[3]), a1[3].eq_term(a2[2])))
        same = z3.And(a1[0].eq_term(a2[0]), a1[1][0].eq_term(a2[1][0]), msgs, a1[4].eq_term(a2[4]))
        cex = lambda m: dict(kind="sym2", a=_mb(m, a1[1][0], a1[2], a1[3], a1[4], a1[0]),
                             b=_mb(m, a2[1][0], a2[2], a2[3], a2[4], a2[0]))
        J.claim(r, "equal keys => identical (pw, idS, {m1,m2}, K)",
                z3.Implies(SymBytes.of(r.value[0]).eq_term(r.value[1]), same), cex=cex, oracle="finalize")


# ------------------------------------------------------------------ oracle
def _h(b):
    import hashlib
    return hashlib.sha256(b).digest()


def ref_asym(idA, idB, X, Y, K, pw):
    return _h(_h(pw) + _h(idA) + _h(idB) + X + Y + K)


def ref_sym(idS, m1, m2, K, pw):
    lo, hi = (m1, m2) if m1 <= m2 else (m2, m1)
    return _h(_h(pw) + _h(idS) + lo + hi + K)


def oracle_finalize(kind, a, b=None):
    from spake2 import spake2 as S
    from checks import matrix
    r = matrix.finalize_matrix()
    if r:
        return (True, r)
    if kind == "asym":
        got = S.finalize_SPAKE2(*a)
        return (got != ref_asym(*a), "finalize_SPAKE2%r = %s" % (tuple(a), got.hex()))
    if kind == "sym":
        got, got2 = S.finalize_SPAKE2_symmetric(*a), S.finalize_SPAKE2_symmetric(a[0], a[2], a[1], a[3], a[4])
        return (got != ref_sym(*a) or got2 != got, "finalize_SPAKE2_symmetric%r = %s / swapped %s" % (tuple(a), got.hex(), got2.hex()))
    if kind == "asym2":
        ka, kb = S.finalize_SPAKE2(*a), S.finalize_SPAKE2(*b)
        bad = (ka == kb and list(a) != list(b)) or ka != ref_asym(*a) or kb != ref_asym(*b)
        return (bad, "two calls %r %r -> %s %s" % (a, b, ka.hex(), kb.hex()))
    if kind == "sym2":
        ka, kb = S.finalize_SPAKE2_symmetric(*a), S.finalize_SPAKE2_symmetric(*b)
        norm = lambda t: (t[0], tuple(sorted([t[1], t[2]])), t[3], t[4])
        bad = (ka == kb and norm(a) != norm(b)) or ka != ref_sym(*a) or kb != ref_sym(*b)
        return (bad, "two calls %r %r -> %s %s" % (a, b, ka.hex(), kb.hex()))
    return (None, "unknown kind")


ORACLES = dict(finalize=oracle_finalize)
