"""C06 -- side confusion and reflection are always refused."""
import z3
from symx.core import Ctx, SymInt, SymBytes, SymBool, T, B, model_int
from symx import loader
from symx.proto import (Entropy, setup_hash_axioms, outcome, okind, orders, new_instance, restore, sym_inputs,
                        abstract_params, PEER, SIDE_BYTE)

PID = "C06"
TECHNIQUE = "symbolic execution of finish() with a symbolic side byte and body (abstract group; real groups for reflection); z3 decides 'key only for the peer label and a non-reflected element'"
LEVEL_NOTE = 'GC contract; asserts enabled'
EXPLANATION = (
    "finish() of the real SPAKE2_A, SPAKE2_B and SPAKE2_Symmetric classes (fresh, and restored through the real "
    "serialize/from_serialized) is executed on an inbound message whose side byte is one symbolic byte (all 256 values) "
    "and whose body is an arbitrary symbolic string of element width (plus the empty and one-byte messages, and bodies "
    "one byte short/long); password, identities and the secret scalar are symbolic; the group is the abstract "
    "prime-order group (order L with identity rejection, toy 11, shipped q1024). On every path the solver proves: a key "
    "is returned only if the side byte is exactly the peer's side and the body differs from the instance's own "
    "outbound element; a wrong A/B label raises OffSides (asymmetric: any byte other than the peer's; symmetric: A or "
    "B), any other wrong label raises; a body equal to the own element under the accepted label raises "
    "ReflectionThwarted."
)
TRUSTED = ["abstract group contract GC (DESIGN.md 2.5): decode(encode(e)) = e, fixed width",
           "asserts are enabled (python -O is outside the claim)"]
ASSUMPTIONS = ["message body lengths in {0 (empty message), 0 (side byte only), W-1, W, W+1}"]


def jobs(tier):
    js = []
    qs = ["11", "L"] if tier == "quick" else ["11", "L", "q1024", "q3072", "65537"]
    for qn in qs:
        for cls in "ABS":
            for restored in (0, 1):
                for shape in ("full", "empty", "sideonly", "short", "long"):
                    if tier == "quick" and qn != "11" and shape not in ("full",):
                        continue
                    js.append(("job_side", dict(_name="q=%s class=%s restored=%d msg=%s" % (qn, cls, restored, shape),
                                                qn=qn, cls=cls, restored=restored, shape=shape)))
    # reflection compares elements, so it is re-run on the real groups: any accepted encoding of the own element is refused
    for g in (["I1024", "Ed25519"] if tier == "quick" else ["I1024", "I2048", "I3072", "Ed25519"]):
        for cls in "ABS":
            for dl in (0, -1, 1):
                js.append(("job_real_reflect", dict(_name="real %s class=%s body length W%+d" % (g, cls, dl), gname=g, cls=cls, dl=dl)))
    return js


def job_real_reflect(J, gname, cls, dl):
    """real group code (exponent domain / abstract points): a key is never returned for a body that decodes to the element
    the instance itself sent -- whatever byte string encodes it"""
    from checks import realtier as RT
    J.bounds.update(group=gname, cls=cls, body_length="W%+d" % dl)

    def h(ctx):
        w = RT.make_world(ctx, gname)
        try:
            pw, idA, idB = sym_inputs((1, 1, 1))
            inst = new_instance(cls, w.params, pw, idA, idB, Entropy("ent", max_calls=1))
            own = SymBytes.of(inst.start())
            msg = SymBytes([SIDE_BYTE[PEER[cls]]]) + SymBytes.fresh_chunk("body", w.W + dl)
            d = dict(own=own, msg=msg, inst=inst, pw=pw, idA=idA, idB=idB, W=w.W)
            ctx.data["w"] = d
            d["o"] = outcome(inst.finish, msg)
            if d["o"][0] == "ret":
                d["inb_val"] = msg[1:].value()
                d["own_val"] = own[1:].value()
            return okind(d["o"])
        finally:
            RT.teardown(w)
    for r in J.explore(h, max_paths=60):
        d = r.ctx.data.get("w")
        J.reach(r)
        cex = lambda m, d=d: dict(cls=cls, restored=0, shape="full", side=SIDE_BYTE[PEER[cls]], mode="own-any-encoding",
                                  pw=d["pw"].model_bytes(m) if d else b"p", idA=d["idA"].model_bytes(m) if d else b"a",
                                  idB=d["idB"].model_bytes(m) if d else b"b", x=3)
        if r.kind != "ret":
            J.claim(r, "real %s session starts (%s)" % (gname, type(r.value).__name__), False, cex=cex, oracle="side")
            continue
        J.claim(r, "real %s: outcome for a body of width W%+d is a refusal unless the width is exact (%s)" % (gname, dl, r.value),
                r.value != "key" or dl == 0, cex=cex, oracle="side")
        if r.value == "key":
            J.claim(r, "real %s: a key never for a body with the integer value of the own element" % gname,
                    d["inb_val"] != d["own_val"], cex=cex, oracle="side")


def job_side(J, qn, cls, restored, shape):
    q = orders()[qn]
    S = loader.MODS["spake2"]
    lens = (1, 1, 1)
    J.bounds.update(q=qn, cls=cls, restored=restored, message_shape=shape, lens=lens)

    def h(ctx):
        setup_hash_axioms(ctx)
        params = abstract_params(q, rejects_identity=(qn == "L"))
        W = params.group.element_size_bytes
        pw, idA, idB = sym_inputs(lens)
        inst = new_instance(cls, params, pw, idA, idB, Entropy("ent"))
        own = SymBytes.of(inst.start())
        if restored:
            inst = restore(cls, inst, params)
        if shape == "empty":
            msg = SymBytes([])
        else:
            side = SymBytes.fresh("side", 1)
            n = {"full": W, "sideonly": 0, "short": W - 1, "long": W + 1}[shape]
            msg = side + SymBytes.fresh_chunk("body", n)
        ctx.data["w"] = dict(own=own, msg=msg, inst=inst, pw=pw, idA=idA, idB=idB)
        o = outcome(inst.finish, msg)
        ctx.data["w"]["o"] = o
        return okind(o)

    peer = SIDE_BYTE[PEER[cls]]
    for r in J.explore(h):
        w = r.ctx.data.get("w")
        J.reach(r)
        cex = lambda m, w=w: _cex(w, m, cls, restored, shape)
        if r.kind != "ret":
            J.claim(r, "harness reaches finish()", False, cex=cex, oracle="side")
            continue
        kind = r.value
        msg, own = w["msg"], w["own"]
        if len(msg) == 0:
            J.claim(r, "empty message never yields a key (%s)" % kind, kind != "key", cex=cex, oracle="side")
            if cls in "AB":
                J.claim(r, "empty message raises OffSides on A/B", kind == "OffSides", cex=cex, oracle="side")
            continue
        sb = T(msg[0])
        body_is_own = msg[1:].eq_term(own[1:]) if len(msg) == len(own) else z3.BoolVal(False)
        if kind == "key":
            J.claim(r, "key only for the peer's side byte", sb == peer, cex=cex, oracle="side")
            J.claim(r, "key never for the reflected own element", z3.Not(body_is_own), cex=cex, oracle="side")
            J.claim(r, "key only for a body of element width", len(msg) == len(own), cex=cex, oracle="side")
        elif kind == "OffSides":
            J.claim(r, "OffSides only for a wrong side byte", sb != peer, cex=cex, oracle="side")
        elif kind == "ReflectionThwarted":
            J.claim(r, "ReflectionThwarted only under the accepted label", sb == peer, cex=cex, oracle="side")
        else:
            # any other exception (ValueError/AssertionError for undecodable bodies or unknown side on Symmetric)
            if cls in "AB":
                J.claim(r, "A/B: a wrong label always raises OffSides, not %s" % kind, sb == peer, cex=cex, oracle="side")
            else:
                J.claim(r, "Symmetric: an A/B label always raises OffSides, not %s" % kind,
                        z3.And(sb != 0x41, sb != 0x42), cex=cex, oracle="side")
            refl = z3.And(sb == peer, body_is_own)
            if kind == "ValueError" and qn == "L":
                # identity-rejecting group: the decoder refuses an identity element before the reflection test
                from symx.proto import msg_log
                J.claim(r, "own element under the accepted label raises ReflectionThwarted (ValueError only if it is "
                           "the identity, which the group refuses first)",
                        z3.Implies(refl, msg_log(w["inst"]) % q == 0), cex=cex, oracle="side")
            else:
                J.claim(r, "own element under the accepted label raises ReflectionThwarted, not %s" % kind,
                        z3.Not(refl), cex=cex, oracle="side")


def _cex(w, m, cls, restored, shape):
    if w is None:
        return None
    msg, own = w["msg"], w["own"]
    side = None if len(msg) == 0 else msg[0:1].model_bytes(m)[0]
    mode = "junk"
    if len(msg) == len(own) and len(msg) > 1:
        if m is not None and z3.is_true(m.eval(msg[1:].eq_term(own[1:]), model_completion=True)):
            mode = "own"
        else:
            mode = "peer"
    return dict(cls=cls, restored=restored, shape=shape, side=side, mode=mode, pw=w["pw"].model_bytes(m),
                idA=w["idA"].model_bytes(m), idB=w["idB"].model_bytes(m),
                x=model_int(m, w["inst"].xy_scalar) if hasattr(w["inst"], "xy_scalar") else 1)


# ------------------------------------------------------------------ oracle
def oracle_side(cls, restored, shape, side, mode, pw, idA, idB, x):
    from checks import common as C
    sp = C.S()
    K = {"A": sp.SPAKE2_A, "B": sp.SPAKE2_B, "S": sp.SPAKE2_Symmetric}
    peer_cls = {"A": "B", "B": "A", "S": "S"}[cls]
    peer_side = {"A": b"A", "B": b"B", "S": b"S"}[peer_cls]
    sides = [None] if side is None else sorted({side, 0x41, 0x42, 0x53, 0x43, 0x00, 0xff})
    # the own element under alternative byte strings (shorter big-endian form when it starts with 00, zero-padded, ...)
    for nm in ("I1024", "toy1019", "Ed25519"):
        params = C.params_by_name(nm)

        def mk0(xx):
            e = C.entropy_for_scalar(params.group, xx)
            return K[cls](pw, idSymmetric=idA, params=params, entropy_f=e) if cls == "S" else K[cls](pw, idA=idA, idB=idB, params=params, entropy_f=e)
        xz, mz = (C.leading_zero_scalar(lambda xx: mk0(xx).start()) if nm != "Ed25519" else (x % C.group_order(params.group) or 1, None))
        if xz is None:
            continue
        for rst in (0, 1):
            inst = mk0(xz)
            own = inst.start()
            if rst:
                inst = K[cls].from_serialized(inst.serialize(), params=params)
            alts = [own[1:], b"\x00" + own[1:], own[1:] + b"\x00"]
            if own[1] == 0:
                alts += [own[2:]]          # (own[2:] + 00 would have the right width but denotes another element: not a reflection)
            for body in alts:
                i2 = mk0(xz)
                i2.start()
                if rst:
                    i2 = K[cls].from_serialized(i2.serialize(), params=params)
                o = C.finish_outcome(i2, peer_side + body)
                if o[0] == "key":
                    return (True, "class=%s restored=%d params=%s: a key is returned for the instance's own element sent back as %d bytes "
                            "(element width %d)" % (cls, rst, nm, len(body), len(own) - 1))
    for nm in ("Ed25519", "I1024", "I2048", "I3072", "toy11"):
        params = C.params_by_name(nm)
        q = C.group_order(params.group)
        for sd in sides:
            for md in {mode if mode in ("own", "peer", "junk") else "own", "own", "peer"}:
                def mk(c, xx):
                    if c == "S":
                        return K[c](pw, idSymmetric=idA, params=params, entropy_f=C.entropy_for_scalar(params.group, xx))
                    return K[c](pw, idA=idA, idB=idB, params=params, entropy_f=C.entropy_for_scalar(params.group, xx))
                inst = mk(cls, x % q)
                own = inst.start()
                if restored:
                    inst = K[cls].from_serialized(inst.serialize(), params=params)
                peer_msg = mk(peer_cls, (x + 1) % q).start()
                body = {"own": own[1:], "peer": peer_msg[1:], "junk": bytes(len(own) - 1)}[md]
                if shape == "empty" or sd is None:
                    msg = b""
                elif shape == "sideonly":
                    msg = bytes([sd])
                elif shape == "short":
                    msg = bytes([sd]) + body[:-1]
                elif shape == "long":
                    msg = bytes([sd]) + body + b"\x00"
                else:
                    msg = bytes([sd]) + body
                o = C.finish_outcome(inst, msg)
                good_side = (msg[0:1] == peer_side)
                if not good_side:
                    # the same bytes handed over in a mutable container (what recv_into()-style transports produce)
                    inst2 = mk(cls, x % q)
                    inst2.start()
                    if restored:
                        inst2 = K[cls].from_serialized(inst2.serialize(), params=params)
                    o2 = C.finish_outcome(inst2, bytearray(msg))
                    if o2[0] == "key" or (cls in "AB" and o2[1] != "OffSides"):
                        return (True, "wrongly labelled message delivered as a bytearray: class=%s restored=%d params=%s label=%s -> %s" % (
                            cls, restored, nm, msg[:1].hex(), o2[1] if o2[0] == "exc" else "key"))
                what = "class=%s restored=%d params=%s msg=%s(%s) -> %s" % (cls, restored, nm, msg[:1].hex(), md if len(msg) > 1 else shape, o[1] if o[0] == "exc" else "key")
                if o[0] == "key":
                    if not good_side or body == own[1:] or len(msg) != len(own):
                        return (True, "key returned: " + what)
                    continue
                if not good_side:
                    ab_label = msg[0:1] in (b"A", b"B")
                    if cls in "AB" and o[1] != "OffSides":
                        return (True, "wrong label did not raise OffSides: " + what)
                    if cls == "S" and ab_label and o[1] != "OffSides":
                        return (True, "A/B label did not raise OffSides: " + what)
                elif len(msg) == len(own) and msg[1:] == own[1:] and o[1] != "ReflectionThwarted":
                    return (True, "reflection not refused with ReflectionThwarted: " + what)
    return (False, "all refused")


ORACLES = dict(side=oracle_side)
