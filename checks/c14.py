"""C14 -- password-to-scalar and seed-to-element derivations are exact and in-group."""
import z3
from symx.core import Ctx, SymInt, SymBytes, SymBool, Flags, T, B, PathAbort, EngineUnsupported, model_int
from symx import loader
from checks import published_constants as PC

PID = "C14"
TECHNIQUE = "symbolic execution with HKDF replaced by a recording stub: z3 decides 'one HKDF with the published parameters on the unchanged input, result = value mod q'; pow under the exponent-law contract; Ed25519 try-and-increment over abstract points"
LEVEL_NOTE = 'HKDF uninterpreted; Fermat; non-identity of integer-group arbitrary_element assumed (probability 1/q), verified for shipped seeds'
EXPLANATION = (
    "The real groups.password_to_scalar/expand_password and the password_to_scalar methods of IntegerGroup (three "
    "shipped groups) and of the Ed25519 group run on a symbolic password of each stated length with HKDF replaced by a "
    "stub that records (algorithm, length, salt, info, input) and returns symbolic bytes; the solver proves that "
    "exactly one HKDF-SHA256 with salt '' and info 'SPAKE2 pw' of length scalar_size+16 is applied to the unchanged "
    "password and that the result is its big-endian value mod q (hence in [0,q), deterministic, no password-dependent "
    "special case: any would show as an extra path or a different term). IntegerGroup.arbitrary_element runs on a "
    "symbolic seed with pow() under the exponent-law contract: one HKDF with info 'SPAKE2 arbitrary element' and "
    "length element_size, h = value mod p, result pow(h,(p-1)/q,p), subgroup member whenever h != 0 mod p (Fermat); "
    "the only other path is the assertion for h == 0 mod p. Ed25519 arbitrary_element: the real loop runs over "
    "abstract curve points (kernels replaced by the contracts K1-K5 that C12/C13 justify): HKDF(48 bytes) mod Q, "
    "try-and-increment up to the stated number of increments, multiplication by 8, identity skipped, result typed "
    "Element with zero torsion component. Ground: M, N, S of the four shipped sets equal the released constants."
)
TRUSTED = ["HKDF modelled as an uninterpreted function per (parameters, input length)",
           "Fermat: h^(p-1) = 1 mod p for h != 0 (pow contract), p prime as published"]
ASSUMPTIONS = ["integer groups: non-identity of arbitrary_element(seed) assumes HKDF(seed) mod p is not a (p-1)/q-th root "
               "of unity (probability 1/q; verified for the shipped seeds as ground facts)",
               "password/seed lengths from the stated sets",
               "Ed25519 try-and-increment loop: every path with up to 3 (quick) / 6 (thorough) skipped candidates; deep job up to "
               "24 (quick) / 48 (thorough) skipped candidates of which at most one is an on-curve small-order point; a change that "
               "only shows after more skipped candidates (probability < 2^-24 per seed) is outside; concrete replay seeds "
               "exist for up to 19 skipped candidates"]


def jobs(tier):
    lens = [0, 1, 2, 64, 65, 130] if tier == "quick" else [0, 1, 2, 3, 31, 32, 33, 55, 56, 63, 64, 65, 119, 127, 128, 129, 130, 200]
    js = []
    for g in ("I1024", "I2048", "I3072", "Ed25519"):
        for n in lens:
            js.append(("job_p2s", dict(_name="password_to_scalar %s len=%d" % (g, n), gname=g, n=n)))
    for g in ("toy11", "toy257", "toy1019", "sp61"):      # custom groups whose p, q are not byte aligned
        for n in (0, 2, 65):
            js.append(("job_p2s", dict(_name="password_to_scalar %s len=%d" % (g, n), gname=g, n=n)))
            js.append(("job_arb_int", dict(_name="arbitrary_element %s seedlen=%d" % (g, n), gname=g, n=n)))
    for g in ("I1024", "I2048", "I3072"):
        for n in ([0, 1, 9, 65, 130] if tier == "quick" else [0, 1, 2, 9, 63, 64, 65, 128, 129, 200]):
            js.append(("job_arb_int", dict(_name="arbitrary_element %s seedlen=%d" % (g, n), gname=g, n=n)))
    for n in ([0, 1, 9, 65, 130] if tier == "quick" else [0, 1, 2, 9, 63, 64, 65, 128, 129, 200]):
        js.append(("job_arb_ed", dict(_name="arbitrary_element Ed25519 seedlen=%d" % n, n=n, incs=3 if tier == "quick" else 6)))
    # the retry loop itself, deep: every path with up to `incs` skipped candidates
    # (at most `max_small` of the skipped candidates are on-curve points of small order -- the curve has only 5 such y
    # values in total -- the others are off-curve; without that cut the number of paths doubles per candidate)
    js.append(("job_arb_ed", dict(_name="arbitrary_element Ed25519 seedlen=2, deep retry loop", n=2, incs=24 if tier == "quick" else 48,
                                  max_small=1)))
    if tier != "quick":
        js.append(("job_arb_ed", dict(_name="arbitrary_element Ed25519 seedlen=2, retry loop with <= 3 small-order candidates", n=2,
                                      incs=12, max_small=3)))
    js.append(("job_constants", dict(_name="released M/N/S constants (ground)")))
    return js


def _group(gname):
    if gname == "Ed25519":
        return loader.MODS["ed25519_group"].Ed25519Group, loader.MODS["ed25519_basic"].L
    if hasattr(loader.MODS["groups"], gname):
        g = getattr(loader.MODS["groups"], gname)
    else:
        from checks.realtier import custom_world
        g = custom_world(gname)[0]
    return g, g.q


def job_p2s(J, gname, n):
    g, q = _group(gname)
    sw = (q.bit_length() + 7) // 8
    J.bounds.update(group=gname, password_len=n)

    def h(ctx):
        pw = SymBytes.fresh("pw", n)
        ctx.data["pw"] = pw
        return g.password_to_scalar(pw)
    for r in J.explore(h, fallback=("p2s", dict(group=gname, pw=bytes(n)))):
        pw = r.ctx.data["pw"]
        J.reach(r)
        cex = lambda m, pw=pw: dict(group=gname, pw=pw.model_bytes(m))
        if r.kind != "ret":
            J.claim(r, "password_to_scalar does not raise (%s)" % type(r.value).__name__, False, cex=cex, oracle="p2s")
            continue
        calls = r.ctx.table("hkdf")
        J.claim(r, "exactly one HKDF application", len(calls) == 1, cex=cex, oracle="p2s")
        if len(calls) != 1:
            continue
        c = calls[0]
        J.claim(r, "HKDF-SHA256, length scalar_size+16=%d, salt '', info 'SPAKE2 pw'" % (sw + 16),
                c["algorithm"] == "SHA256" and c["length"] == sw + 16 and c["salt"] in (b"", None) and c["info"] == b"SPAKE2 pw",
                cex=cex, oracle="p2s")
        J.claim(r, "HKDF is applied to the unchanged password", SymBytes.of(c["data"]).eq_term(pw), cex=cex, oracle="p2s")
        J.claim(r, "result = big-endian(HKDF output) mod q", T(r.value) == SymBytes.of(c["out"]).value() % q, cex=cex, oracle="p2s")
        J.claim(r, "0 <= result < q", z3.And(T(r.value) >= 0, T(r.value) < q), cex=cex, oracle="p2s")


def job_arb_int(J, gname, n):
    G = loader.MODS["groups"]
    g, q = _group(gname)
    p = g.p
    W = (p.bit_length() + 7) // 8
    rexp = (p - 1) // q
    POWR = z3.Function("POW_r", z3.IntSort(), z3.IntSort())
    J.bounds.update(group=gname, seed_len=n)

    def stub(b, e, m):
        c = Ctx.cur
        c.table("pow").append((b, e, m))
        if isinstance(e, int) and e == rexp and m == p and isinstance(b, SymInt):
            v = POWR(b.t)
            c.side += [v >= 0, v < p, (v == 0) == (b.t % p == 0)]
            c.data["hr"] = (b.t, v)
            return SymInt(v)
        if isinstance(e, int) and e == q and m == p and isinstance(b, SymInt) and "hr" in c.data and b.t.eq(c.data["hr"][1]):
            # (h^r)^q = h^(p-1) = 1 for h != 0 mod p (Fermat), 0 otherwise
            return SymInt(z3.If(c.data["hr"][0] % p == 0, z3.IntVal(0), z3.IntVal(1)))
        raise EngineUnsupported("pow(%r, %r, %r) outside the arbitrary_element shapes" % (b, e, m))

    def h(ctx):
        Flags.pow_stub = stub
        seed = SymBytes.fresh("seed", n)
        ctx.data["seed"] = seed
        return g.arbitrary_element(seed)
    for r in J.explore(h, fallback=("arb_int", dict(group=gname, seed=bytes(n)))):
        seed = r.ctx.data["seed"]
        J.reach(r)
        cex = lambda m, seed=seed: dict(group=gname, seed=seed.model_bytes(m))
        calls = r.ctx.table("hkdf")
        ok1 = len(calls) == 1
        J.claim(r, "exactly one HKDF application", ok1, cex=cex, oracle="arb_int")
        if not ok1:
            continue
        c = calls[0]
        hval = SymBytes.of(c["out"]).value() % p
        if r.kind == "exc":
            J.claim(r, "%s only when HKDF(seed) = 0 mod p" % type(r.value).__name__,
                    hval == 0, cex=cex, oracle="arb_int")
            continue
        J.claim(r, "HKDF-SHA256, length element_size=%d, salt '', info 'SPAKE2 arbitrary element'" % W,
                c["algorithm"] == "SHA256" and c["length"] == W and c["salt"] in (b"", None) and c["info"] == b"SPAKE2 arbitrary element",
                cex=cex, oracle="arb_int")
        J.claim(r, "HKDF is applied to the unchanged seed", SymBytes.of(c["data"]).eq_term(seed), cex=cex, oracle="arb_int")
        el = r.value
        isel = isinstance(el, G._Element) and el._group is g and "hr" in r.ctx.data
        J.claim(r, "result is an element of this group built by pow(h, (p-1)/q, p)", isel, cex=cex, oracle="arb_int")
        if isel:
            hb, hv = r.ctx.data["hr"]
            J.claim(r, "h = big-endian(HKDF output) mod p and element = h^((p-1)/q)",
                    z3.And(hb == hval, T(el._e) == hv), cex=cex, oracle="arb_int")
            J.claim(r, "returned only for h != 0 (then a subgroup member by Fermat)", hval != 0, cex=cex, oracle="arb_int")
    Flags.pow_stub = None


def job_arb_ed(J, n, incs, max_small=None):
    """the real try-and-increment loop over abstract curve points (kernel contracts K1-K5), HKDF/xrecover/isoncurve stubs"""
    from symx.edabs import EdAbs, AbsPt
    E = loader.MODS["ed25519_basic"]
    Q, L = E.Q, E.L
    XR = z3.Function("XRECOVER", z3.IntSort(), z3.IntSort())
    ONC = z3.Function("OnCurve", z3.IntSort(), z3.IntSort(), z3.BoolSort())
    J.bounds.update(seed_len=n, max_increments=incs, max_small_order_candidates=max_small if max_small is not None else "any")

    def h(ctx):
        A = EdAbs(E)
        A.install(ctx)
        saved = (E.xrecover, E.isoncurve, E.xform_affine_to_extended)
        tried, pts = [], []

        def xrec(y):
            if len(tried) > incs:
                raise PathAbort("more than %d increments" % incs)
            if max_small is not None and len(pts) > max_small:      # every earlier on-curve candidate was a small-order skip
                raise PathAbort("more than %d small-order candidates" % max_small)
            r = XR(T(y))
            ctx.side += [r >= 0, r < Q]
            tried.append(T(y))
            return SymInt(r)

        def onc(P):
            return SymBool(ONC(T(P[0]), T(P[1])))

        def aff(pt):
            if isinstance(pt[0], SymInt) or isinstance(pt[1], SymInt):
                k, t = ctx.fresh("ptk"), ctx.fresh("ptt")
                a = AbsPt(k, t)
                pts.append((T(pt[0]), T(pt[1]), a))
                return a
            return saved[2](pt)
        E.xrecover, E.isoncurve, E.xform_affine_to_extended = xrec, onc, aff
        try:
            seed = SymBytes.fresh("seed", n)
            ctx.data["w"] = dict(seed=seed, tried=tried, pts=pts)
            return A.saved["arbitrary_element"](seed)      # the real loop; kernels are the contracts
        finally:
            E.xrecover, E.isoncurve, E.xform_affine_to_extended = saved
            A.uninstall()
    for r in J.explore(h, max_paths=(2 ** (incs + 3) + 50 if max_small is None else (incs * incs + 6 * incs + 200 if max_small <= 1 else 8000)), fallback=("arb_ed", dict(seed=bytes(n)))):
        w = r.ctx.data["w"]
        J.reach(r)
        cex = lambda m, w=w: dict(seed=w["seed"].model_bytes(m))
        if r.kind != "ret":
            J.claim(r, "arbitrary_element does not raise (%s)" % type(r.value).__name__, False, cex=cex, oracle="arb_ed")
            continue
        calls = r.ctx.table("hkdf")
        ok = len(calls) == 1
        J.claim(r, "exactly one HKDF application", ok, cex=cex, oracle="arb_ed")
        if not ok:
            continue
        c = calls[0]
        J.claim(r, "HKDF-SHA256, 48 bytes, salt '', info 'SPAKE2 arbitrary element', applied to the unchanged seed",
                c["algorithm"] == "SHA256" and c["length"] == 48 and c["salt"] in (b"", None) and c["info"] == b"SPAKE2 arbitrary element"
                and bool(z3.is_true(z3.simplify(SymBytes.of(c["data"]).eq_term(w["seed"])))), cex=cex, oracle="arb_ed")
        y0 = SymBytes.of(c["out"]).value() % Q
        tried, pts = w["tried"], w["pts"]
        J.claim(r, "candidates are y, y+1, ... mod Q in order, y = big-endian(HKDF output) mod Q [%d tried]" % len(tried),
                z3.And([tried[j] == (y0 + j) % Q for j in range(len(tried))]), cex=cex, oracle="arb_ed")
        el = r.value
        good = isinstance(el, E.Element) and isinstance(el.XYTZ, AbsPt) and len(pts) >= 1
        J.claim(r, "result is an Element built from the last candidate point", good, cex=cex, oracle="arb_ed")
        if not good:
            continue
        px, py, pa = pts[-1]
        J.claim(r, "the point is (xrecover(y_j), y_j) for the last candidate, on the curve",
                z3.And(px == XR(tried[-1]), py == tried[-1], ONC(px, py)), cex=cex, oracle="arb_ed")
        J.claim(r, "result = [8]P: torsion component killed, not the identity, order L",
                z3.And((el.XYTZ.k - 8 * pa.k) % L == 0, el.XYTZ.t % 8 == 0, el.XYTZ.k % L != 0), cex=cex, oracle="arb_ed")
        # every earlier candidate was skipped for a legitimate reason: off the curve, or a small-order point
        conds = []
        k_used = {id(p[2]) for p in pts}
        for j in range(len(tried) - 1):
            on = ONC(XR(tried[j]), tried[j])
            small = [z3.And(p[1] == tried[j], p[2].k % L == 0) for p in pts[:-1]]
            conds.append(z3.Or(z3.Not(on), z3.Or(small) if small else z3.BoolVal(False)))
        J.claim(r, "earlier candidates were skipped only because off-curve or of small order", z3.And(conds) if conds else True,
                cex=cex, oracle="arb_ed")


def job_constants(J):
    v, detail = oracle_constants()
    J.ground("M, N, S of the four shipped parameter sets equal the released constants", not v, detail,
             oracle="constants", args={})
    # also through the instrumented copy (the tree under test as imported by the engine)
    sets = {"Ed25519": loader.MODS["parameters.ed25519"].ParamsEd25519, "I1024": loader.MODS["parameters.i1024"].Params1024,
            "I2048": loader.MODS["parameters.i2048"].Params2048, "I3072": loader.MODS["parameters.i3072"].Params3072}
    for nm, P in sets.items():
        ref = PC.ED25519 if nm == "Ed25519" else PC.INT_GROUPS[nm]
        for k in "MNS":
            J.ground("%s.%s is the released constant" % (nm, k), getattr(P, k).to_bytes().hex() == ref[k],
                     oracle="constants", args={})
        J.ground("%s seeds are b'M', b'N', b'symmetric'" % nm, (P.M_str, P.N_str, P.S_str) == (b"M", b"N", b"symmetric"),
                 oracle="constants", args={})


# ------------------------------------------------------------------ oracles
def _refgroup(group):
    from checks import refimpl as R, common as C
    if group == "Ed25519":
        return R.RefEdGroup()
    if group in C.TOYS:
        return R.RefIntGroup(*C.TOYS[group])
    d = PC.INT_GROUPS[group]
    return R.RefIntGroup(d["p"], d["q"], d["g"])


def _real(group):
    from spake2 import groups, ed25519_group
    from checks import common as C
    if group in C.TOYS:
        return C.toy_group(group)
    return ed25519_group.Ed25519Group if group == "Ed25519" else getattr(groups, group)


def oracle_p2s(group, pw):
    g, rg = _real(group), _refgroup(group)
    pool = [pw, pw + b"\x00", b"", bytes(64), bytes(65), b"\xff" * len(pw), b"pw", bytes(range(130)),
            # byte strings a text-minded change might treat specially: non-NFC UTF-8, compatibility characters, case,
            # surrounding whitespace, NUL, BOMs, invalid UTF-8
            b"cafe\xcc\x81", b"\xe2\x84\xab", b"x" * 70 + b"o\xcc\x88", "\ufb01".encode("utf-8"), b"PassWord", b" pw ", b"pw\n",
            b"pw\x00", b"\x00pw", b"\xef\xbb\xbfpw", b"\xff\xfepw", b"\xc3\x28", "pässwörd".encode("utf-8"),
            "pässwörd".encode("latin-1"), b"0x7077", b"7077"]
    for p_ in pool:
        try:
            got = g.password_to_scalar(p_)
        except Exception as e:
            return (True, "password_to_scalar(%r) raised %r on %s" % (p_, e, group))
        if got != rg.p2s(p_):
            return (True, "password_to_scalar(%r) on %s = %d, published derivation gives %d" % (p_, group, got, rg.p2s(p_)))
    return (False, "ok")


def oracle_arb_int(group, seed):
    g, rg = _real(group), _refgroup(group)
    for s in [seed, b"", b"M", b"N", b"symmetric", seed + b"\x00", bytes(65)]:
        try:
            e = g.arbitrary_element(s)
        except Exception as ex:
            return (True, "arbitrary_element(%r) raised %r" % (s, ex))
        want = rg.arbitrary(s)
        if e.to_bytes() != rg.enc(want):
            return (True, "arbitrary_element(%r) on %s differs from the published construction" % (s, group))
        if not rg.is_member(want) or (want == 1 and group not in ("toy11", "toy257", "toy1019")):
            return (True, "arbitrary_element(%r) is not a non-identity subgroup member" % (s,))
    return (False, "ok")


def oracle_constants():
    from checks import common as C
    for nm, P in C.shipped_params().items():
        ref = PC.ED25519 if nm == "Ed25519" else PC.INT_GROUPS[nm]
        for k in "MNS":
            if getattr(P, k).to_bytes().hex() != ref[k]:
                return (True, "%s.%s = %s..., released constant %s..." % (nm, k, getattr(P, k).to_bytes().hex()[:24], ref[k][:24]))
    return (False, "ok")


# seeds for which the published construction skips many candidates before the first usable point (found by searching
# b"seed-%d" with checks/refimpl.py; the number of skipped candidates is re-computed by the oracle, not trusted)
DEEP_SEEDS = {7: b"seed-478", 8: b"seed-872", 9: b"seed-206", 10: b"seed-580", 11: b"seed-1595", 12: b"seed-389", 13: b"seed-41046",
              14: b"seed-21268", 15: b"seed-67643", 16: b"seed-33007", 17: b"seed-43883", 18: b"seed-244296", 19: b"seed-685725"}


def oracle_arb_ed(seed):
    from spake2 import ed25519_basic as E
    from checks import refimpl as R
    deep = [s_ for k, s_ in sorted(DEEP_SEEDS.items()) if R.ed_arbitrary_increments(s_) == k]
    for s_ in [seed, b"", b"M", b"N", b"symmetric", b"A", b"B", seed + b"\x00", bytes(65), b"\xff" * 7] + deep:
        try:
            e = E.arbitrary_element(s_)
        except Exception as ex:
            return (True, "arbitrary_element(%r) raised %r" % (s_, ex))
        want = R.ed_arbitrary_element(s_)
        if not isinstance(e, E.Element) or e.to_bytes() != R.ed_enc(want):
            return (True, "Ed25519 arbitrary_element(%r) differs from the published construction (%d candidates skipped)" % (s_, R.ed_arbitrary_increments(s_)))
        if want == R.ED_ZERO or not R.ed_in_subgroup(want):
            return (True, "Ed25519 arbitrary_element(%r) is not a non-identity subgroup member" % (s_,))
    return (False, "ok")


ORACLES = dict(p2s=oracle_p2s, arb_int=oracle_arb_int, constants=oracle_constants, arb_ed=oracle_arb_ed)
