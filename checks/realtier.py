"""protocol-level jobs on the REAL group code: the real SPAKE2 classes run on the real shipped IntegerGroup objects in the
exponent domain (symx.dlog) and on the real Ed25519 group wrapper + element classes over abstract points (symx.edabs).
Shared by C01 (agreement), C03 (conformance), C04 (message form): this is the discharge of the abstract group contract
GC inside the protocol-level checks, so a change in groups.py / ed25519_basic.py / ed25519_group.py that breaks one of
those properties is reported by that property's own check."""
import z3
from symx.core import Ctx, SymInt, SymBytes, SymBool, Flags, T, B, EngineUnsupported, PathAbort, model_int
from symx import loader, env
from symx.absgroup import norm, strip_mod, norm_mod
from symx.dlog import DlogDomain, Dlog, uninstall as dlog_uninstall
from symx.edabs import EdAbs, AbsPt, ENCPT
from symx.proto import Entropy, setup_hash_axioms, outcome, okind, new_instance, restore, klass, PEER, SIDE_BYTE

INT = {"I1024": "parameters.i1024", "I2048": "parameters.i2048", "I3072": "parameters.i3072"}
PNAME = {"I1024": "Params1024", "I2048": "Params2048", "I3072": "Params3072"}


from checks.common import TOYS as CUSTOM
_custom_cache = {}


def custom_world(gname):
    """a custom IntegerGroup (p, q not byte aligned) and its default parameter set, built by the real constructors of the
    tree under test (concrete, before any domain layer is installed)"""
    if gname not in _custom_cache:
        p, q, g = CUSTOM[gname]
        grp = loader.MODS["groups"].IntegerGroup(p=p, q=q, g=g)
        _custom_cache[gname] = (grp, loader.MODS["params"]._Params(grp))
    return _custom_cache[gname]


def jobs_for(pid, tier):
    js = []
    groups = ["I1024", "Ed25519", "toy1019"] if tier == "quick" else ["I1024", "I2048", "I3072", "Ed25519", "toy11", "toy1019", "toy257", "sp61", "big2052"]
    if pid == "C01":
        for g in groups:
            for fl in ("AB", "SS"):
                for ser in ((0, 0), (1, 1)) if tier == "quick" else ((0, 0), (1, 0), (0, 1), (1, 1)):
                    js.append(("rt_agree", dict(_name="real %s %s ser=%d%d" % (g, fl, ser[0], ser[1]), gname=g, fl=fl, ser=ser)))
    if pid in ("C03", "C04"):
        for g in groups:
            for cls in "ABS":
                for restored in ((0, 1) if pid == "C03" else (0,)):
                    js.append(("rt_conform", dict(_name="real %s class %s restored=%d" % (g, cls, restored), gname=g, cls=cls,
                                                  restored=restored, with_key=(pid == "C03"))))
    return js


# ------------------------------------------------------------------ worlds
class World:
    pass


def make_world(ctx, gname):
    """install the domain layer for one real shipped group; returns params object and helpers"""
    setup_hash_axioms(ctx)
    w = World()
    w.gname = gname
    if gname == "Ed25519":
        E = loader.MODS["ed25519_basic"]
        A = EdAbs(E)
        A.install(ctx)
        w.params = loader.MODS["parameters.ed25519"].ParamsEd25519
        w.q = E.L
        w.W = 32
        w.A = A
        mus = {}
        for nm in ("M", "N", "S"):
            el = getattr(w.params, nm)
            mu = z3.Int("mu_" + nm)
            ctx.side.append(mu % E.L != 0)
            A.const[tuple(el.XYTZ)] = (mu, 0)
            mus[nm] = mu
        w.mu = mus
        # contract GC3 (C05): decoding accepts exactly the canonical encodings of non-identity subgroup elements
        VALID = z3.Function("VALID_ED", z3.IntSort(), z3.BoolSort())
        DK = z3.Function("DLOG_ED", z3.IntSort(), z3.IntSort())

        def abs_decode(b):
            b = SymBytes.of(b)
            if len(b) != 32:
                raise ValueError("element must be exactly 32 bytes")
            v = z3.simplify(b.value())
            tab = ctx.table("edencs")
            found = None
            for (k, t, ev) in list(tab):          # the very encoding some element produced: that element
                if ev.eq(v) or z3.simplify(ev).eq(v):
                    found = (k, t)
                    break
            if found is None:
                for (k, t, ev) in list(tab):
                    if bool(SymBool(ev == v)):
                        found = (k, t)
                        break
            if found is None:
                if SymBool(VALID(v)):
                    k = DK(v)
                    ctx.side += [ENCPT(k % E.L, z3.IntVal(0)) == v, k % E.L != 0]
                    tab.append((k, z3.IntVal(0), ENCPT(k % E.L, z3.IntVal(0))))
                    found = (k, z3.IntVal(0))
                else:
                    raise ValueError("not a canonical encoding of a subgroup element")
            k, t = found
            if SymBool(z3.And(k % E.L == 0, t % 8 == 0)):
                raise ValueError("element was Zero")
            if SymBool(t % 8 != 0):
                raise ValueError("element is not in the right group")
            return E.Element(AbsPt(k, t))
        w.saved_decode = E.bytes_to_element
        E.bytes_to_element = abs_decode
        w.enc = lambda log: SymBytes.from_int(_edenc(ctx, norm_mod(log, E.L), E.L), 32)
        w.blind_log = lambda nm: mus[nm]
        w.scalar_ref = _ed_scalar_ref
    else:
        G = loader.MODS["groups"]
        if gname in CUSTOM:
            g, params = custom_world(gname)
        else:
            g, params = getattr(G, gname), getattr(loader.MODS[INT[gname]], PNAME[gname])
        D = DlogDomain(g, gname)
        D.install(ctx)
        w.params = params
        w.q = g.q
        w.W = (g.p.bit_length() + 7) // 8
        w.D = D
        w.enc = lambda log: SymBytes.from_int(D.val_term(log, ctx), w.W)
        w.blind_log = lambda nm: D.log_of_const(getattr(w.params, nm)._e)
        w.scalar_ref = _int_scalar_ref
    return w


def _edenc(ctx, log, L):
    tab = ctx.table("edencs")
    for (k2, t2, v2) in tab:
        if k2.eq(log) and z3.is_int_value(t2) and t2.as_long() == 0:
            return v2
    v = ENCPT(log % L, z3.IntVal(0) % 8)
    ctx.side += [v >= 0, v < 2 ** 256]
    tab.append((log, z3.IntVal(0), v))
    return v


def _int_scalar_ref(w, ent):
    """reference derivation of the secret scalar from the entropy stream (first accepted draw)"""
    q = w.q
    bits = q.bit_length()
    items = ent.calls[-1][1].items()          # the bytes of the draw (the same solver variables the code iterated over)
    n = len(items)
    top_bits = bits - 8 * (n - 1)
    acc = T(items[0]) % (2 ** top_bits)       # "value mod 2^bits", written over the bytes
    for b in items[1:]:
        acc = acc * 256 + T(b)
    return acc


def _ed_scalar_ref(w, ent):
    return ent.calls[-1][1].value()      # exponent of an order-L element: reduction mod L is immaterial


def _pw_scalar_ref(ctx, pwlen_calls, q):
    """w = big-endian(HKDF(pw)) mod q, from the recorded HKDF application on the password"""
    return SymBytes.of(pwlen_calls["out"]).value() % q


def teardown(w):
    if w.gname == "Ed25519":
        loader.MODS["ed25519_basic"].bytes_to_element = w.saved_decode
        w.A.uninstall()
    else:
        dlog_uninstall()


# ------------------------------------------------------------------ C01 on the real groups
def rt_agree(J, gname, fl, ser):
    J.bounds.update(group=gname, flavour=fl, serialize=ser, lens=dict(pw=2, idA=1, idB=1), max_draws=1)
    J.assumptions.add("integer groups: the first entropy draw is accepted (longer reject chains are C11's subject)")

    def h(ctx):
        w = make_world(ctx, gname)
        try:
            pw, idA, idB = SymBytes.fresh("pw", 2), SymBytes.fresh("idA", 1), SymBytes.fresh("idB", 1)
            eA, eB = Entropy("entA", max_calls=1), Entropy("entB", max_calls=1)
            ca, cb = ("A", "B") if fl == "AB" else ("S", "S")
            a = new_instance(ca, w.params, pw, idA, idB, eA)
            b = new_instance(cb, w.params, pw, idA, idB, eB)
            mA, mB = a.start(), b.start()
            if ser[0]:
                a = restore(ca, a, w.params)
            if ser[1]:
                b = restore(cb, b, w.params)
            d = dict(a=a, b=b, mA=mA, mB=mB, pw=pw, idA=idA, idB=idB, w=w)
            d["zero"] = SymBytes.of(w.params.group.Zero.to_bytes())
            ctx.data["w"] = d
            d["oA"] = outcome(a.finish, mB)
            d["oB"] = outcome(b.finish, mA)
            return okind(d["oA"]), okind(d["oB"])
        finally:
            teardown(w)

    for r in J.explore(h, max_paths=120):
        d = r.ctx.data.get("w")
        J.reach(r)
        cex = lambda m, d=d: _cex_agree(d, m, gname, fl, ser)
        if r.kind != "ret":
            J.claim(r, "real %s session runs without %s" % (gname, type(r.value).__name__), False, cex=cex, oracle="rt_exchange")
            continue
        kinds = r.value
        if kinds == ("key", "key"):
            J.claim(r, "real %s: keys are equal" % gname, SymBytes.of(d["oA"][1]).eq_term(d["oB"][1]), cex=cex, oracle="rt_exchange")
        elif kinds == ("ReflectionThwarted", "ReflectionThwarted"):
            J.claim(r, "real %s: ReflectionThwarted only when both blinded elements coincide" % gname,
                    SymBytes.of(d["mA"])[1:].eq_term(SymBytes.of(d["mB"])[1:]), cex=cex, oracle="rt_exchange")
        elif gname == "Ed25519" and "ValueError" in kinds and all(k in ("ValueError", "key", "ReflectionThwarted") for k in kinds):
            conds = []
            if kinds[0] == "ValueError":
                conds.append(SymBytes.of(d["mB"])[1:].eq_term(d["zero"]))
            if kinds[1] == "ValueError":
                conds.append(SymBytes.of(d["mA"])[1:].eq_term(d["zero"]))
            J.claim(r, "real Ed25519: ValueError only for an identity blinded element", z3.And(conds), cex=cex, oracle="rt_exchange")
        else:
            J.claim(r, "real %s: outcome pair %s/%s is unreachable" % ((gname,) + kinds), False, cex=cex, oracle="rt_exchange")


def _cex_agree(d, m, gname, fl, ser):
    if d is None:
        return dict(group=gname, fl=fl, ser=list(ser), pw=b"pw", idA=b"a", idB=b"b", x=1, y=2)
    q = d["w"].q
    return dict(group=gname, fl=fl, ser=list(ser), pw=d["pw"].model_bytes(m), idA=d["idA"].model_bytes(m), idB=d["idB"].model_bytes(m),
                x=model_int(m, d["a"].xy_scalar, 1) % q if hasattr(d["a"], "xy_scalar") else 1,
                y=model_int(m, d["b"].xy_scalar, 2) % q if hasattr(d["b"], "xy_scalar") else 2)


# ------------------------------------------------------------------ C03 / C04 on the real groups
def rt_conform(J, gname, cls, restored, with_key):
    J.bounds.update(group=gname, cls=cls, restored=restored, lens=dict(pw=2, idA=1, idB=1), max_draws=1)

    def h(ctx):
        w = make_world(ctx, gname)
        try:
            pw, idA, idB = SymBytes.fresh("pw", 2), SymBytes.fresh("idA", 1), SymBytes.fresh("idB", 1)
            ent = Entropy("ent", max_calls=1)
            a = new_instance(cls, w.params, pw, idA, idB, ent)
            msg = SymBytes.of(a.start())
            x_code = a.xy_scalar
            if restored:
                a = restore(cls, a, w.params)
            d = dict(a=a, msg=msg, pw=pw, idA=idA, idB=idB, ent=ent, w=w, x_code=x_code)
            ctx.data["w"] = d
            if with_key:
                # the peer's message: an arbitrary accepted element, here the blinded element of an honest peer scalar
                peer = new_instance(PEER[cls], w.params, pw, idA, idB, Entropy("pent", max_calls=1))
                d["inbound"] = SymBytes.of(peer.start())
                d["peer"] = peer
                d["o"] = outcome(a.finish, d["inbound"])
                return okind(d["o"])
            return "started"
        finally:
            teardown(w)

    for r in J.explore(h, max_paths=80):
        d = r.ctx.data.get("w")
        J.reach(r)
        cex = lambda m, d=d: dict(group=gname, cls=cls, restored=restored, pw=d["pw"].model_bytes(m) if d else b"pw",
                                  idA=d["idA"].model_bytes(m) if d else b"a", idB=d["idB"].model_bytes(m) if d else b"b",
                                  x=(model_int(m, d["a"].xy_scalar, 1) % d["w"].q) if d and hasattr(d["a"], "xy_scalar") else 1)
        if r.kind != "ret":
            J.claim(r, "real %s start() runs without %s" % (gname, type(r.value).__name__), False, cex=cex, oracle="rt_conform")
            continue
        w = d["w"]
        hk = [c for c in r.ctx.table("hkdf") if c.get("info") == b"SPAKE2 pw" and not isinstance(c["data"], bytes)]
        J.claim(r, "real %s: one HKDF('SPAKE2 pw') application on the session password" % gname,
                len(hk) >= 1 and all(SymBytes.of(c["data"]).eq_term(d["pw"]) is not None for c in hk), cex=cex, oracle="rt_conform")
        if not hk or len(d["ent"].calls) != 1:
            J.claim(r, "real %s: exactly one entropy request" % gname, False, cex=cex, oracle="rt_conform")
            continue
        wref = SymBytes.of(hk[0]["out"]).value() % w.q
        xref = w.scalar_ref(w, d["ent"])
        if gname != "Ed25519":
            # lemma (linear arithmetic, decided on its own): the scalar the code drew is the published function of the entropy
            # bytes.  The protocol-level obligations below then use the code's own term for it, so that they do not depend
            # on how the sampling arithmetic happens to be written (mask on the top byte vs. mask on the integer)
            xcode = T(d["x_code"])
            J.claim(r, "real %s: the secret scalar is the published function of the entropy bytes" % gname, xcode == xref,
                    cex=cex, oracle="rt_conform")
            xref = xcode
        blind = {"A": "M", "B": "N", "S": "S"}[cls]
        ref = SymBytes([SIDE_BYTE[cls]]) + w.enc(xref + wref * w.blind_log(blind))
        J.claim(r, "real %s: start() message = side || enc(x*G + w*%s) with x, w by the published derivations" % (gname, blind),
                d["msg"].eq_term(ref), cex=cex, oracle="rt_conform")
        J.claim(r, "real %s: message is %d bytes" % (gname, 1 + w.W), len(d["msg"]) == 1 + w.W, cex=cex, oracle="rt_conform")
        if with_key and r.value == "key":
            yref = w.scalar_ref(w, d["peer"].entropy_f) if isinstance(d["peer"].entropy_f, Entropy) else None
            pblind = {"A": "N", "B": "M", "S": "S"}[cls]         # the peer's blinding element = my unblinding element
            if yref is None:
                continue
            if gname != "Ed25519":
                ycode = T(d["peer"].xy_scalar)
                J.claim(r, "real %s: the peer's secret scalar is the published function of its entropy bytes" % gname, ycode == yref,
                        cex=cex, oracle="rt_conform")
                yref = ycode
            peer_log = yref + wref * w.blind_log(pblind)
            K = w.enc((peer_log - wref * w.blind_log(pblind)) * xref)
            H = env.sha_term
            own, body = ref[1:], d["inbound"][1:]
            if cls == "A":
                want = H(_cat(H(d["pw"]), H(d["idA"]), H(d["idB"]), own, body, K))
            elif cls == "B":
                want = H(_cat(H(d["pw"]), H(d["idA"]), H(d["idB"]), body, own, K))
            else:
                k1 = H(_cat(H(d["pw"]), H(d["idA"]), own, body, K))
                k2 = H(_cat(H(d["pw"]), H(d["idA"]), body, own, K))
                key = SymBytes.of(d["o"][1])
                own_first = z3.Or(own.lt_term(body, True), own.eq_term(body))
                J.claim(r, "real %s: finish() key = SHA256(SHA256(pw)||SHA256(idS)||sorted msgs||enc(x*(peer - w*S)))" % gname,
                        z3.If(own_first, key.eq_term(k1), key.eq_term(k2)), cex=cex, oracle="rt_conform")
                continue
            J.claim(r, "real %s: finish() key = SHA256(SHA256(pw)||SHA256(idA)||SHA256(idB)||X*||Y*||enc(x*(peer - w*%s)))" % (gname, pblind),
                    SymBytes.of(d["o"][1]).eq_term(want), cex=cex, oracle="rt_conform")


def _cat(*parts):
    acc = SymBytes([])
    for p in parts:
        acc = acc + SymBytes.of(p)
    return acc


# ------------------------------------------------------------------ oracles
def oracle_rt_exchange(group, fl, ser, pw, idA, idB, x, y):
    from checks.c01 import oracle_exchange
    return oracle_exchange(fl, ser, pw, idA, idB, x, y)


def oracle_rt_conform(group, cls, restored, pw, idA, idB, x):
    from checks.c03 import oracle_conform
    return oracle_conform(cls, restored, pw, idA, idB, x)


ORACLES = dict(rt_exchange=oracle_rt_exchange, rt_conform=oracle_rt_conform)
