"""protocol-level jobs on the REAL group code (IntegerGroup in the exponent domain, Ed25519 classes over abstract
points): shared by C01, C03, C04 (GC discharge inside the protocol-level checks)"""
ORACLES = {}


def jobs_for(pid, tier):
    return []
