"""C12 -- Ed25519 point addition and doubling compute the Edwards group law."""
import z3
from symx.core import Ctx, SymInt, T, model_int, EngineUnsupported
from symx import loader
from symx.poly import PolyInt, SE, sympy_to_z3, congruence_witness

PID = "C12"
TECHNIQUE = 'the real field kernels and Element.add run on integer-polynomial proxies; z3 decides the cross-multiplied Edwards-law identities (with sympy cofactor certificates modulo the curve equations) at the real 255-bit constants'
LEVEL_NOTE = "mod erasure (Z -> Z/Q ring homomorphism); Bernstein-Lange final step; Euler's criterion; Euclid's lemma"
EXPLANATION = (
    "The real add_elements, double_element and _add_elements_nonunfied bodies (re-imported from /repo) are executed on "
    "polynomial proxies: the inputs are the generic extended representations (x1 z1, y1 z1, z1, x1 y1 z1), (x2 z2, "
    "y2 z2, z2, x2 y2 z2) with x, y, z free integer variables (every projective scaling of every pair of points), "
    "'% Q' is the ring homomorphism Z -> Z/Q, the constant d is the module's own. The outputs are integer "
    "polynomials and z3 proves, as polynomial identities over Z at the real 255-bit constants, the cross-multiplied "
    "twisted-Edwards law X3(1+d x1x2y1y2) = Z3(x1y2+x2y1), Y3(1-d x1x2y1y2) = Z3(y1y2+x1x2), T3 Z3 = X3 Y3 and the "
    "factorisation of Z3 (so Z3 = 0 iff a denominator of the affine law vanishes); for doubling and for the dedicated "
    "addition the same modulo the curve equations through cofactor certificates (sympy proposes goal = sum a_i c_i, "
    "z3 verifies the identity), plus Z3 = 4 z1^2 z2^2 (x1y2-y1x2)(y1y2-x1x2) for the dedicated addition, i.e. it fails "
    "exactly when the difference of the operands has x = 0 or y = 0 (orders 1, 2, 4). Completeness (no exceptional "
    "points for the unified law): the polynomial core of the Bernstein-Lange lemma is verified by explicit cofactors, "
    "d non-square and I^2 = -1 are ground facts on the module constants. The ladder obligation (the dedicated addition "
    "inside scalarmult_element only meets operands whose difference has order L) is an induction step over abstract "
    "points decided in linear arithmetic."
)
TRUSTED = ["Z -> Z/Q is a ring homomorphism (mod erasure)", "Bernstein-Lange: a vanishing denominator on curve points would "
           "make d a square (the polynomial core is checked, the final step is trusted)", "Euler's criterion; Q prime",
           "Euclid's lemma for the prime L"]
ASSUMPTIONS = ["none on the inputs: identities in free variables at the real Q"]


def jobs(tier):
    return [("job_unified", dict(_name="add_elements (add-2008-hwcd-3)")),
            ("job_double", dict(_name="double_element (dbl-2008-hwcd)")),
            ("job_dedicated", dict(_name="_add_elements_nonunfied (add-2008-hwcd-4)")),
            ("job_completeness", dict(_name="completeness lemma core + constants")),
            ("job_ladder", dict(_name="ladder step: dedicated addition never meets exceptional operands")),
            ("job_affine", dict(_name="affine<->extended conversions and identity test")),
            ("job_class_add", dict(_name="Element.add / ElementOfUnknownGroup.add on generic representations", cls_name="Element")),
            ("job_class_add", dict(_name="ElementOfUnknownGroup.add on generic representations", cls_name="ElementOfUnknownGroup"))]


def _vars():
    return {n: z3.Int(n) for n in "x1 y1 z1 x2 y2 z2".split()}


def _points(E, mk):
    v = {n: mk(n) for n in "x1 y1 z1 x2 y2 z2".split()}
    P1 = (v["x1"] * v["z1"], v["y1"] * v["z1"], v["z1"], v["x1"] * v["y1"] * v["z1"])
    P2 = (v["x2"] * v["z2"], v["y2"] * v["z2"], v["z2"], v["x2"] * v["y2"] * v["z2"])
    return v, P1, P2


def _cex(m):
    return {n: model_int(m, z3.Int(n), 1) for n in "x1 y1 z1 x2 y2 z2".split()}


def _field_identities(J, r, prefix, Q, kw, items):
    """the laws are identities in the field GF(Q).  The kernels run with `% Q` erased, so an identity normally holds over Z;
    when the code uses constants reduced mod Q at import time (2d mod Q, ...) it holds over Z only up to a multiple of Q:
    that multiple K (an integer polynomial) is computed and z3 checks  lhs == rhs + Q*K  as polynomials over Z"""
    for label, lhs, rhs in items:
        try:
            K = congruence_witness(lhs, rhs, Q)
        except Exception:
            K = 0
        if K is None or (isinstance(K, int) and K == 0):
            J.claim(r, "%s: %s" % (prefix, label), lhs == rhs, **kw)
        else:
            J.claim(r, "%s: %s  (mod Q: lhs = rhs + Q*K)" % (prefix, label), lhs == rhs + Q * K, **kw)


def job_unified(J):
    J.default_fallback = ("kernels", dict(x1=1, y1=1, z1=1, x2=1, y2=1, z2=1))
    E = loader.MODS["ed25519_basic"]
    PolyInt.MODULUS = E.Q
    d = E.d

    def h(ctx):
        v, P1, P2 = _points(E, lambda n: PolyInt(z3.Int(n)))
        return v, E.add_elements(P1, P2)
    for r in J.explore(h):
        ctx = r.ctx
        kw = dict(cex=_cex, oracle="kernels")
        if r.kind != "ret":
            J.claim(r, "add_elements does not raise", False, **kw)
            continue
        v, out = r.value
        X3, Y3, Z3, T3 = [T(c) for c in out]
        x1, y1, z1, x2, y2, z2 = [v[n].t for n in "x1 y1 z1 x2 y2 z2".split()]
        t = d * x1 * x2 * y1 * y2
        _field_identities(J, r, "add", E.Q, kw, (
            ("X3 (1 + d x1x2y1y2) = Z3 (x1y2 + x2y1)", X3 * (1 + t), Z3 * (x1 * y2 + x2 * y1)),
            ("Y3 (1 - d x1x2y1y2) = Z3 (y1y2 + x1x2)", Y3 * (1 - t), Z3 * (y1 * y2 + x1 * x2)),
            ("T3 Z3 = X3 Y3", T3 * Z3, X3 * Y3),
            ("Z3 = 4 z1^2 z2^2 (1 - d x1x2y1y2)(1 + d x1x2y1y2)", Z3, 4 * z1 * z1 * z2 * z2 * (1 - t) * (1 + t))))
        # vacuity twin: a deliberately wrong law must be refuted
        rr, m, _ = ctx.solve(z3.Not(X3 * (1 - t) == Z3 * (x1 * y2 + x2 * y1)), timeout_ms=60000)
        J.claim(r, "twin: the wrong law X3(1 - dt) = Z3(..) is refutable (solver is not vacuous)", rr == "sat", **kw)


def job_class_add(J, cls_name):
    """point addition as the element classes perform it (whatever kernel they pick), on generic projective
    representations of two arbitrary points: the result satisfies the unified law identities"""
    J.default_fallback = ("kernels", dict(x1=1, y1=1, z1=1, x2=1, y2=1, z2=1))
    E = loader.MODS["ed25519_basic"]
    PolyInt.MODULUS = E.Q
    d = E.d
    K = getattr(E, cls_name)

    def h(ctx):
        v, P1, P2 = _points(E, lambda n: PolyInt(z3.Int(n)))
        return v, K(P1).add(K(P2))
    for r in J.explore(h, max_paths=40):
        kw = dict(cex=_cex, oracle="kernels")
        if r.kind != "ret":
            J.claim(r, "%s.add does not raise on generic representations (%s)" % (cls_name, type(r.value).__name__), False, **kw)
            continue
        v, res = r.value
        if res is E.Zero:
            continue                      # the sum was recognised as the identity on this path
        X3, Y3, Z3, T3 = [T(c) for c in res.XYTZ]
        x1, y1, z1, x2, y2, z2 = [v[n].t for n in "x1 y1 z1 x2 y2 z2".split()]
        t = d * x1 * x2 * y1 * y2
        _field_identities(J, r, "%s.add" % cls_name, E.Q, kw, (
            ("X3 (1 + d x1x2y1y2) = Z3 (x1y2 + x2y1)", X3 * (1 + t), Z3 * (x1 * y2 + x2 * y1)),
            ("Y3 (1 - d x1x2y1y2) = Z3 (y1y2 + x1x2)", Y3 * (1 - t), Z3 * (y1 * y2 + x1 * x2)),
            ("T3 Z3 = X3 Y3", T3 * Z3, X3 * Y3),
            ("Z3 = 4 z1^2 z2^2 (1 - d x1x2y1y2)(1 + d x1x2y1y2)  (never 0 on curve points)", Z3, 4 * z1 * z1 * z2 * z2 * (1 - t) * (1 + t))))


def _cert_claims(J, ctx, name, goals, premises, gens_order):
    """goals: {label: f(ns)}; premises: [f(ns)]; ns provides X3,Y3,Z3,T3,x1..z2,d in either representation.
    sympy proposes cofactors a_i with goal = sum a_i premise_i; z3 verifies that identity over Z on the terms
    produced by the real code."""
    import sympy as sp
    nsS, nsZ, env = ctx.data["nsS"], ctx.data["nsZ"], ctx.data["env"]
    J.claim(ctx, "%s: the kernel is branch-free (needed by the certificate method)" % name, ctx.data["branch_free"],
            cex=_cex, oracle="kernels")
    gens = [nsS[g] for g in gens_order]
    premS = [f(nsS) for f in premises]
    premZ = [f(nsZ) for f in premises]
    for label, f in goals.items():
        gS = sp.expand(f(nsS))
        gZ = f(nsZ)
        try:
            qs, rem = sp.reduced(gS, premS, *gens, order="lex") if gS != 0 else ([sp.Integer(0)] * len(premS), 0)
        except Exception as e:
            qs, rem = None, e
        if qs is None or rem != 0:
            # second method: the code may use constants that are functions of d reduced mod Q at import time (2d mod Q, ...);
            # then the identity only holds modulo Q.  Find cofactors over GF(Q) with the concrete d, lift to Z
            # (goal - sum a_i c_i = Q*K with an integer polynomial K) and let z3 verify that identity over Z.
            cert = _modq_certificate(ctx, f, premises, [g for g in gens_order if g != "d"])
            if cert is None:
                J.claim(ctx, "%s: %s vanishes modulo the curve equations (no certificate: remainder %s)" % (name, label, str(rem)[:60]),
                        False, cex=_cex, oracle="kernels")
                continue
            gZb, rhsb, sizes = cert
            J.claim(ctx, "%s: %s = sum a_i c_i + Q*K  (certificate over GF(Q) lifted to Z; cofactor sizes %s)" % (name, label, sizes),
                    gZb == rhsb, cex=_cex, oracle="kernels")
            continue
        rhs = z3.IntVal(0)
        for a, c in zip(qs, premZ):
            if a != 0:
                rhs = rhs + sympy_to_z3(sp.expand(a), env) * c
        J.claim(ctx, "%s: %s = sum a_i c_i  (cofactor sizes %s)" % (
            name, label, [len(sp.Poly(a, *gens).terms()) if a != 0 else 0 for a in qs]),
            gZ == rhs, cex=_cex, oracle="kernels")


def _modq_certificate(ctx, goal, premises, gen_names):
    import sympy as sp
    E = loader.MODS["ed25519_basic"]
    Q = E.Q
    fn, two = ctx.data["kernel"]
    names = "x1 y1 z1 x2 y2 z2".split()
    s = {n: sp.Symbol(n) for n in names}
    SE.MODULUS = Q
    vs, P1, P2 = _points(E, lambda n: SE(s[n]))
    try:
        outS = fn(P1, P2) if two else fn(P1)          # concrete d and whatever constants the module derived from it
    except EngineUnsupported:
        return None
    dred = E.d % Q
    ns = dict(s)
    ns.update(zip(("X3", "Y3", "Z3", "T3"), [c.e for c in outS]))
    ns["d"] = sp.Integer(dred)
    gens = [s[g] for g in gen_names]
    g = sp.expand(goal(ns))
    prem = [sp.expand(f(ns)) for f in premises]
    try:
        qs, rem = sp.reduced(g, prem, *gens, order="lex", modulus=Q)
    except Exception:
        return None
    if rem != 0:
        return None
    qs = [sp.expand(a) for a in qs]
    diff = sp.expand(g - sum(a * c for a, c in zip(qs, prem)))
    if diff != 0:
        P = sp.Poly(diff, *gens)
        if any(int(c) % Q for c in P.coeffs()):
            return None
        K = sp.Poly.from_dict({m: int(c) // Q for m, c in P.terms()}, *gens).as_expr()
    else:
        K = sp.Integer(0)
    env = {n: z3.Int(n) for n in names}
    nsZ = dict(ctx.data["nsZ"])
    nsZ["d"] = z3.IntVal(dred)
    rhs = z3.IntVal(Q) * sympy_to_z3(K, env) if K != 0 else z3.IntVal(0)
    for a, f in zip(qs, premises):
        if a != 0:
            rhs = rhs + sympy_to_z3(a, env) * f(nsZ)
    sizes = [len(sp.Poly(a, *gens).terms()) if a != 0 else 0 for a in qs]
    return goal(nsZ), rhs, sizes


def _both_runs(ctx, E, fn, two):
    """run the real kernel on z3 polynomial proxies and on sympy proxies"""
    import sympy as sp
    names = "x1 y1 z1 x2 y2 z2".split()
    PolyInt.MODULUS = E.Q
    SE.MODULUS = E.Q
    ctx.data["kernel"] = (fn, two)
    vz, P1, P2 = _points(E, lambda n: PolyInt(z3.Int(n)))
    npc = len(ctx.pc)
    outZ = fn(P1, P2) if two else fn(P1)
    ctx.data["branch_free"] = (len(ctx.pc) == npc and not ctx.work)
    nsZ = {n: vz[n].t for n in names}
    nsZ.update(zip(("X3", "Y3", "Z3", "T3"), [T(c) for c in outZ]))
    nsZ["d"] = z3.IntVal(E.d)
    s = {n: sp.Symbol(n) for n in names}
    vs, P1, P2 = _points(E, lambda n: SE(s[n]))
    dsym = sp.Symbol("d")
    saved = E.d
    E.d = SE(dsym)
    try:
        outS = fn(P1, P2) if two else fn(P1)
    finally:
        E.d = saved
    nsS = dict(s)
    nsS.update(zip(("X3", "Y3", "Z3", "T3"), [c.e for c in outS]))
    nsS["d"] = dsym
    env = {n: z3.Int(n) for n in names}
    env["d"] = z3.IntVal(E.d)
    ctx.data.update(nsS=nsS, nsZ=nsZ, env=env)


def _c1(n):
    return -n["x1"] * n["x1"] + n["y1"] * n["y1"] - 1 - n["d"] * n["x1"] * n["x1"] * n["y1"] * n["y1"]


def _c2(n):
    return -n["x2"] * n["x2"] + n["y2"] * n["y2"] - 1 - n["d"] * n["x2"] * n["x2"] * n["y2"] * n["y2"]


def job_double(J):
    J.default_fallback = ("kernels", dict(x1=1, y1=1, z1=1, x2=1, y2=1, z2=1))
    E = loader.MODS["ed25519_basic"]
    ctx = Ctx()
    Ctx.cur = ctx
    _both_runs(ctx, E, E.double_element, False)
    dt = lambda n: n["d"] * n["x1"] * n["x1"] * n["y1"] * n["y1"]
    goals = {
        "X3 (1 + d x1^2 y1^2) - Z3 (2 x1 y1)": lambda n: n["X3"] * (1 + dt(n)) - n["Z3"] * (2 * n["x1"] * n["y1"]),
        "Y3 (1 - d x1^2 y1^2) - Z3 (y1^2 + x1^2)": lambda n: n["Y3"] * (1 - dt(n)) - n["Z3"] * (n["y1"] * n["y1"] + n["x1"] * n["x1"]),
        "T3 Z3 - X3 Y3": lambda n: n["T3"] * n["Z3"] - n["X3"] * n["Y3"],
        "Z3 + z1^4 (1 + d x1^2y1^2)(1 - d x1^2y1^2)":
            lambda n: n["Z3"] + n["z1"] * n["z1"] * n["z1"] * n["z1"] * (1 + dt(n)) * (1 - dt(n)),
    }
    _cert_claims(J, ctx, "double", goals, [_c1], ("y1", "x1", "z1", "d"))


def job_dedicated(J):
    J.default_fallback = ("kernels", dict(x1=1, y1=1, z1=1, x2=1, y2=1, z2=1))
    E = loader.MODS["ed25519_basic"]
    ctx = Ctx()
    Ctx.cur = ctx
    _both_runs(ctx, E, E._add_elements_nonunfied, True)
    t = lambda n: n["d"] * n["x1"] * n["x2"] * n["y1"] * n["y2"]
    goals = {
        "X3 (1 + d x1x2y1y2) - Z3 (x1y2 + x2y1)": lambda n: n["X3"] * (1 + t(n)) - n["Z3"] * (n["x1"] * n["y2"] + n["x2"] * n["y1"]),
        "Y3 (1 - d x1x2y1y2) - Z3 (y1y2 + x1x2)": lambda n: n["Y3"] * (1 - t(n)) - n["Z3"] * (n["y1"] * n["y2"] + n["x1"] * n["x2"]),
        "T3 Z3 - X3 Y3": lambda n: n["T3"] * n["Z3"] - n["X3"] * n["Y3"],
        "Z3 - 4 z1^2 z2^2 (x1y2 - y1x2)(y1y2 - x1x2)":
            lambda n: n["Z3"] - 4 * n["z1"] * n["z1"] * n["z2"] * n["z2"] * (n["x1"] * n["y2"] - n["y1"] * n["x2"]) * (n["y1"] * n["y2"] - n["x1"] * n["x2"]),
    }
    _cert_claims(J, ctx, "dedicated add", goals, [_c1, _c2], ("y1", "y2", "x1", "x2", "z1", "z2", "d"))
    # the exceptional differences are exactly the points of order 1, 2, 4
    x, y = z3.Int("x"), z3.Int("y")
    dd = z3.IntVal(E.d)
    curve = -x * x + y * y - 1 - dd * x * x * y * y
    J.claim(ctx, "x = 0 on the curve forces y^2 = 1 (points (0,1), (0,-1): order 1, 2)",
            z3.substitute(curve, (x, z3.IntVal(0))) == y * y - 1, cex=_cex, oracle="kernels")
    J.claim(ctx, "y = 0 on the curve forces x^2 = -1 (the two points of order 4)",
            z3.substitute(curve, (y, z3.IntVal(0))) == -(x * x) - 1, cex=_cex, oracle="kernels")


def job_completeness(J):
    J.default_fallback = ("kernels", dict(x1=1, y1=1, z1=1, x2=1, y2=1, z2=1))
    E = loader.MODS["ed25519_basic"]
    Q, dconst = E.Q, E.d
    ctx = Ctx()
    Ctx.cur = ctx
    x1, y1, x2, y2, e, i = [z3.Int(n) for n in "x1 y1 x2 y2 e i".split()]
    d = z3.IntVal(dconst)
    c1 = -x1 * x1 + y1 * y1 - 1 - d * x1 * x1 * y1 * y1
    c2 = -x2 * x2 + y2 * y2 - 1 - d * x2 * x2 * y2 * y2
    pe = e - d * x1 * x2 * y1 * y2
    pe2 = e * e - 1
    pi = i * i + 1
    for sgn in (1, -1):
        goal = (i * x1 + sgn * e * y1) * (i * x1 + sgn * e * y1) - d * x1 * x1 * y1 * y1 * (i * x2 + sgn * y2) * (i * x2 + sgn * y2)
        cert = pi * (x1 * x1 - d * x1 * x1 * y1 * y1 * x2 * x2) + pe2 * (y1 * y1 - 1) + c1 - d * x1 * x1 * y1 * y1 * c2 \
            + pe * (e + d * x1 * x2 * y1 * y2 + sgn * 2 * i * x1 * y1)
        J.claim(ctx, "completeness core (%+d): (i x1 %s e y1)^2 - d x1^2 y1^2 (i x2 %s y2)^2 lies in the ideal "
                     "(curve eqs, e = d x1x2y1y2, e^2 = 1, i^2 = -1) by explicit cofactors" % (sgn, "+" if sgn > 0 else "-", "+" if sgn > 0 else "-"),
                goal == cert, cex=lambda m: dict(x1=1, y1=1, z1=1, x2=1, y2=1, z2=1), oracle="kernels")
    J.ground("d is a non-square mod Q (Euler's criterion on the module constant)", pow(dconst % Q, (Q - 1) // 2, Q) == Q - 1,
             oracle="kernels", args=dict(x1=1, y1=1, z1=1, x2=1, y2=1, z2=1))
    J.ground("I^2 = -1 mod Q (so a = -1 is a square)", (E.I * E.I + 1) % Q == 0, oracle="kernels",
             args=dict(x1=1, y1=1, z1=1, x2=1, y2=1, z2=1))
    J.ground("d = -121665/121666 mod Q and Q = 2^255 - 19", (dconst * 121666 + 121665) % Q == 0 and Q == 2 ** 255 - 19,
             oracle="kernels", args=dict(x1=1, y1=1, z1=1, x2=1, y2=1, z2=1))


LADDER_BITS = 7


def _ladder_bounded(J, E, bits):
    """an iterative ladder has no recursive call to hang an induction hypothesis on; what remains within reach is the
    bounded statement: for every 0 <= n < 2^bits and an abstract point P of order L (k = its discrete log), the real
    function -- its loop unrolled by the explorer, the curve kernels replaced by their contracts -- returns [n]P and never
    hands the dedicated addition two operands whose difference has order 1, 2 or 4.  n >= 2^bits is outside."""
    from symx.edabs import Coord
    from symx.core import Flags
    L, Q = E.L, E.Q

    class Abs(tuple):
        pass

    def mk(k):
        cs = [Coord(None, i) for i in range(4)]
        a = Abs(cs)
        for c in cs:
            c.owner = a
        a.k = k
        return a

    def kof(pt):
        if hasattr(pt, "k"):
            return pt.k
        t = tuple(pt)
        if len(t) == 4 and all(isinstance(c, Coord) for c in t) and all(c.owner is t[0].owner and c.sign == 1 and c.idx == i for i, c in enumerate(t)):
            return t[0].owner.k
        if len(t) == 4 and all(isinstance(c, int) for c in t) and t[0] % Q == 0 and (t[1] - t[2]) % Q == 0 and t[2] % Q != 0:
            return z3.IntVal(0)                                  # the neutral element (0 : Y : Y : 0)
        raise EngineUnsupported("ladder operand that is neither an abstract point nor the neutral element")

    def h(ctx):
        k = ctx.fresh("k")
        n = SymInt(ctx.fresh("n", 0, 2 ** bits - 1))
        ctx.assume(k % L != 0)
        P = mk(k)
        real = E.scalarmult_element
        saved = (E.double_element, E._add_elements_nonunfied, E.add_elements, E.xform_affine_to_extended)

        def dbl(pt):
            return mk(2 * kof(pt))

        def ded(a, b):
            ctx.table("ded").append((kof(a), kof(b)))
            return mk(kof(a) + kof(b))

        def uni(a, b):
            return mk(kof(a) + kof(b))

        def aff(pt):
            return mk(z3.IntVal(0)) if tuple(pt) == (0, 1) else saved[3](pt)
        E.double_element, E._add_elements_nonunfied, E.add_elements, E.xform_affine_to_extended = dbl, ded, uni, aff
        old_bound = Flags.bitlen_bound
        Flags.bitlen_bound = bits
        try:
            out = real(P, n)
        finally:
            E.double_element, E._add_elements_nonunfied, E.add_elements, E.xform_affine_to_extended = saved
            Flags.bitlen_bound = old_bound
        ctx.data["w"] = (k, n)
        return kof(out)
    J.bounds.update(ladder="iterative: every n < 2^%d" % bits)
    kw = dict(cex=lambda m: dict(x1=1, y1=1, z1=1, x2=1, y2=1, z2=1), oracle="kernels")
    for r in J.explore(h, max_paths=2 ** (bits + 2) + 50):
        J.reach(r)
        if r.kind != "ret":
            J.claim(r, "bounded ladder run does not raise for n < 2^%d (%s)" % (bits, type(r.value).__name__), False, **kw)
            continue
        k, n = r.ctx.data["w"]
        J.claim(r, "bounded ladder: result is [n]P", r.value == n.t * k, **kw)
        for (a, b) in r.ctx.table("ded"):
            c = z3.simplify(z3.substitute(a - b, (k, z3.IntVal(1))))
            ok = z3.is_int_value(c)
            J.claim(r, "bounded ladder: dedicated-addition operands differ by a fixed multiple c of P", ok and (a - b == c * k), **kw)
            if ok:
                J.claim(r, "bounded ladder: c = %d is not a multiple of L (so by Euclid the difference has order L)" % c.as_long(),
                        c.as_long() % L != 0, **kw)


def job_ladder(J):
    J.default_fallback = ("kernels", dict(x1=1, y1=1, z1=1, x2=1, y2=1, z2=1))
    """induction step of scalarmult_element over abstract points (k = discrete log, prime-order subgroup)"""
    E = loader.MODS["ed25519_basic"]
    L = E.L
    calls = []

    class Abs(tuple):
        pass

    def mk(k):
        a = Abs((None, None, None, None))
        a.k = k
        return a

    def h(ctx):
        k = ctx.fresh("k")
        n = SymInt(ctx.fresh("n", 0, L - 1))
        ctx.assume(k % L != 0)
        P = mk(k)
        real = E.scalarmult_element
        saved = (E.scalarmult_element, E.double_element, E._add_elements_nonunfied, E.xform_affine_to_extended)

        def hyp(pt, m):            # induction hypothesis for the recursive call
            calls.append(("rec", m))
            if not (m >= 0):
                raise AssertionError("negative scalar in recursion")
            return mk(pt.k * T(m))

        def dbl(pt):
            return mk(2 * pt.k)

        def ded(a, b):
            ctx.table("ded").append((a.k, b.k))
            return mk(a.k + b.k)

        def aff(pt):
            return mk(z3.IntVal(0)) if tuple(pt) == (0, 1) else saved[3](pt)
        E.scalarmult_element, E.double_element, E._add_elements_nonunfied, E.xform_affine_to_extended = hyp, dbl, ded, aff
        try:
            out = real(P, n)
        finally:
            E.scalarmult_element, E.double_element, E._add_elements_nonunfied, E.xform_affine_to_extended = saved
        ctx.data["w"] = (k, n)
        return out
    for r in J.explore(h):
        J.reach(r)
        kw = dict(cex=lambda m: dict(x1=1, y1=1, z1=1, x2=1, y2=1, z2=1), oracle="kernels")
        if r.kind != "ret" or not hasattr(r.value, "k"):
            if not any(c[0] == "rec" for c in calls):
                # an iterative ladder (a loop over the bits of n) has no recursive call to put the induction hypothesis on;
                # proving it needs a loop invariant this job cannot synthesise: undecided, not a violation
                J.notes.append("scalarmult_element is not the recursive double-and-add the induction step is written for: "
                               "bounded run instead (every n below 2^%d over an abstract point)" % LADDER_BITS)
                try:
                    _ladder_bounded(J, E, LADDER_BITS)
                except EngineUnsupported as e:
                    J.notes.append("bounded ladder run not possible: %s" % e)
                    J.obligations.append(dict(name="ladder: scalarmult_element has a shape this job can follow (recursive n -> n>>1, "
                                                   "or a loop over the bits of n built from the curve kernels)", verdict="unknown", secs=0.0))
                return
            J.claim(r, "ladder step does not raise for 0 <= n < L", False, **kw)
            continue
        k, n = r.ctx.data["w"]
        J.claim(r, "ladder step: result is [n]P given the hypothesis for n>>1", (r.value.k - n.t * k) == 0, **kw)
        for (a, b) in r.ctx.table("ded"):
            # operands [2m]P and P: difference (2m-1) k; 0 < n = 2m+1 < L so -1 <= 2m-1 <= L-3 and 2m-1 != 0
            m2 = z3.simplify((a - b) / k) if False else None
            coef = n.t - 2            # a = (n-1) k  (since a = 2 (n>>1) k and n odd), b = k  => a - b = (n-2) k
            J.claim(r, "dedicated addition operands are [n-1]P and P in either order (difference +-[n-2]P)",
                    z3.Or(a - b == coef * k, b - a == coef * k), **kw)
            J.claim(r, "n-2 is not a multiple of L for odd 0 < n < L (so by Euclid the difference has order L)",
                    z3.And(coef % L != 0, k % L != 0), **kw)


def job_affine(J):
    J.default_fallback = ("kernels", dict(x1=1, y1=1, z1=1, x2=1, y2=1, z2=1))
    """xform_affine_to_extended / is_extended_zero on polynomial and integer proxies"""
    E = loader.MODS["ed25519_basic"]
    Q = E.Q

    def h(ctx):
        x, y = SymInt(ctx.fresh("x", 0, Q - 1)), SymInt(ctx.fresh("y", 0, Q - 1))
        ctx.data["xy"] = (x, y)
        from symx.core import Flags
        Flags.abstract_mul = True
        try:
            return E.xform_affine_to_extended((x, y))
        finally:
            Flags.abstract_mul = False
    for r in J.explore(h):
        x, y = r.ctx.data["xy"]
        kw = dict(cex=lambda m: dict(x1=1, y1=1, z1=1, x2=1, y2=1, z2=1), oracle="kernels")
        if r.kind != "ret":
            J.claim(r, "xform_affine_to_extended does not raise", False, **kw)
            continue
        X, Y, Z, Tt = r.value
        from symx.core import MUL
        J.claim(r, "affine -> extended is (x, y, 1, x*y) reduced", z3.And(T(X) == x.t, T(Y) == y.t, T(Z) == 1), **kw)

    def h2(ctx):
        X, Y, Z = SymInt(ctx.fresh("X", 0, Q - 1)), SymInt(ctx.fresh("Y")), SymInt(ctx.fresh("Z"))
        ctx.data["p"] = (X, Y, Z)
        return E.is_extended_zero((X, Y, Z, 0))
    for r in J.explore(h2):
        X, Y, Z = r.ctx.data["p"]
        kw = dict(cex=lambda m: dict(x1=1, y1=1, z1=1, x2=1, y2=1, z2=1), oracle="kernels")
        if r.kind != "ret":
            J.claim(r, "is_extended_zero does not raise", False, **kw)
            continue
        want = z3.And(X.t == 0, Y.t % Q == Z.t % Q, Y.t % Q != 0)
        from symx.core import SymBool as _SB
        if isinstance(r.value, _SB):          # the function may hand back the (symbolic) truth value itself
            J.claim(r, "is_extended_zero <=> X = 0 and Y = Z != 0 (mod Q), i.e. the point (0, 1)  [returned a condition]",
                    r.value.t == want, **kw)
        else:
            J.claim(r, "is_extended_zero <=> X = 0 and Y = Z != 0 (mod Q), i.e. the point (0, 1)  [returned %s]" % bool(r.value),
                    want if r.value else z3.Not(want), **kw)


# ------------------------------------------------------------------ oracle
def oracle_kernels(x1, y1, z1, x2, y2, z2):
    """(a) the generic identities of the unified addition on the model's integers mod Q;
    (b) all three kernels on a pool of curve points (identity, equal, opposite, small order, random scalings)
    against independent affine arithmetic"""
    from spake2 import ed25519_basic as E
    from checks import refimpl as R
    from checks.pools import ed_pool
    Q, d = R.Q, R.D
    P1 = (x1 * z1 % Q, y1 * z1 % Q, z1 % Q, x1 * y1 * z1 % Q)
    P2 = (x2 * z2 % Q, y2 * z2 % Q, z2 % Q, x2 * y2 * z2 % Q)
    X3, Y3, Z3, T3 = E.add_elements(P1, P2)
    t = d * x1 * x2 * y1 * y2
    if (X3 * (1 + t) - Z3 * (x1 * y2 + x2 * y1)) % Q or (Y3 * (1 - t) - Z3 * (y1 * y2 + x1 * x2)) % Q or (T3 * Z3 - X3 * Y3) % Q \
            or (Z3 - 4 * z1 * z1 * z2 * z2 * (1 - t) * (1 + t)) % Q:
        return (True, "add_elements violates the Edwards law identities on x1=%d y1=%d z1=%d x2=%d y2=%d z2=%d" % (x1, y1, z1, x2, y2, z2))
    pts = []
    for b in ed_pool():
        P = R.ed_dec_strict(b)
        if P is not None and P not in pts:
            pts.append(P)
    pts = pts[:26]

    def ext(P, z):
        return (P[0] * z % Q, P[1] * z % Q, z % Q, P[0] * P[1] * z % Q)

    def aff(X):
        zi = pow(X[2], Q - 2, Q)
        return (X[0] * zi % Q, X[1] * zi % Q)
    zs = [1, 2, Q - 1, 0x1234567 + z1 % 1000]
    for i, P in enumerate(pts):
        for z in zs[:2]:
            D2 = E.double_element(ext(P, z))
            if D2[2] % Q == 0 or aff(D2) != R.ed_add(P, P) or (D2[0] * D2[1] - D2[2] * D2[3]) % Q:
                return (True, "double_element wrong on point %s (z=%d)" % (R.ed_enc(P).hex()[:16], z))
        for j, R2 in enumerate(pts):
            za, zb = zs[(i + j) % 4], zs[(i * j) % 4]
            S = E.add_elements(ext(P, za), ext(R2, zb))
            if S[2] % Q == 0 or aff(S) != R.ed_add(P, R2) or (S[0] * S[1] - S[2] * S[3]) % Q:
                return (True, "add_elements wrong on %s + %s" % (R.ed_enc(P).hex()[:16], R.ed_enc(R2).hex()[:16]))
            diff = R.ed_add(P, R.ed_neg(R2))
            if diff[0] != 0 and diff[1] != 0:
                S = E._add_elements_nonunfied(ext(P, za), ext(R2, zb))
                if S[2] % Q == 0 or aff(S) != R.ed_add(P, R2) or (S[0] * S[1] - S[2] * S[3]) % Q:
                    return (True, "_add_elements_nonunfied wrong on %s + %s (difference not of order 1,2,4)" % (
                        R.ed_enc(P).hex()[:16], R.ed_enc(R2).hex()[:16]))
    # the element classes: the same point in two different projective representations, and opposite points
    for P in [p_ for p_ in pts if R.ed_in_subgroup(p_) and p_ != R.ED_ZERO][:6]:
        for (za, zb) in ((1, 2), (3, 1), (5, 7)):
            for cls in (E.Element, E.ElementOfUnknownGroup):
                e1, e2, e3 = cls(ext(P, za)), cls(ext(P, zb)), cls(ext(R.ed_neg(P), zb))
                try:
                    s12, s13 = e1.add(e2), e1.add(e3)
                    b12, b13 = s12.to_bytes(), s13.to_bytes()
                except Exception as ex:
                    return (True, "%s.add raised %s for one point in two representations" % (cls.__name__, type(ex).__name__))
                if b12 != R.ed_enc(R.ed_add(P, P)):
                    return (True, "%s.add of the same point in two projective representations is not 2P (P=%s)" % (cls.__name__, R.ed_enc(P).hex()[:16]))
                if b13 != R.ed_enc(R.ED_ZERO):
                    return (True, "%s.add of opposite points in different representations is not the identity" % cls.__name__)
    # scalar multiplication ladders against the reference
    for k in (0, 1, 2, 3, 7, 8, 255, R.L - 1, R.L - 2, (R.L - 1) // 2, 2 ** 251 + 12345):
        got = aff(E.scalarmult_element(ext(R.ED_BASE, 1), k)) if k else (0, 1)
        if got != R.ed_mul(R.ED_BASE, k):
            return (True, "scalarmult_element(Base, %d) wrong" % k)
        for P in pts[9:14]:
            if aff(E.scalarmult_element_safe_slow(ext(P, 3), k)) != R.ed_mul(P, k):
                return (True, "scalarmult_element_safe_slow(%s, %d) wrong" % (R.ed_enc(P).hex()[:16], k))
    return (False, "kernels agree with the Edwards law on the pool")


ORACLES = dict(kernels=oracle_kernels)
