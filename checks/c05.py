"""C05 -- inbound elements are decoded strictly: canonical, exact length, in subgroup."""
import z3
from symx.core import Ctx, SymInt, SymBytes, SymBool, Flags, T, B, PathAbort, EngineUnsupported, model_int
from symx import loader
from symx.proto import (Entropy, setup_hash_axioms, outcome, okind, orders, new_instance, sym_inputs, abstract_params,
                        PEER, SIDE_BYTE)
from checks.c15 import job_int_element_codec, member_pow_stub, MEMBER

PID = "C05"
TECHNIQUE = 'symbolic execution of the real decoders on fully symbolic byte strings of every length 0..W+2 / 0..34; membership, on-curve and subgroup tests as abstract predicates; z3 decides accepted => canonical member'
LEVEL_NOTE = 'Z_p^* cyclic; K4 + group structure for the Ed25519 subgroup test; xrecover contract assumed at full width; refutation by a pool of constructed encodings and an independent strict decoder'
EXPLANATION = (
    "Integer groups: the real IntegerGroup.bytes_to_element/_is_member/_element_to_bytes run on a fully symbolic byte "
    "string of every length 0..W+2 at full width (1024/2048/3072 bits), the membership exponentiation pow(i,q,p) "
    "being the abstract predicate Member(i) (Z_p^* cyclic: i^q = 1 iff i in <g>): accepted => length W, 0 < i < p, "
    "Member(i), re-encoding equals the input; every other string raises; every canonical member encoding is accepted. "
    "Ed25519: the real bytes_to_element, bytes_to_unknown_group_element, decodepoint, xform_affine_to_extended, "
    "Element/ElementOfUnknownGroup.scalarmult/to_bytes, xform_extended_to_affine, encodepoint run on symbolic strings "
    "of length 0..34 with xrecover as an uninterpreted function (even result in [0,Q)), isoncurve as the predicate "
    "OnCurve(x mod Q, y mod Q) (that the real isoncurve computes the curve equation is a polynomial obligation of "
    "this check) and the subgroup test [L]P == 0 as the predicate InSubgroup (contract K4 + group theory). The solver "
    "proves: accepted => length 32, OnCurve, InSubgroup, not the identity, the result re-encodes to the input (hence "
    "y < Q and the sign bit is x's parity: canonical), and the converse for canonical encodings under the stated "
    "xrecover contract. finish(): over the abstract group a key is returned only after bytes_to_element returned for "
    "exactly the message body. Failing obligations are concretised from a pool of constructed encodings (8 torsion "
    "points, torsion-shifted subgroup points, y >= Q, sign bit on x = 0, off-curve y, truncated, extended, 0, 1, "
    "p-1, p, non-members) which the oracle decodes with an independent strict decoder."
)
TRUSTED = ["Z_p^* is cyclic, so {i: i^q = 1} is the order-q subgroup (p, q as published)",
           "K4: scalarmult_element_safe_slow(P, L) = [L]P, and [L]P = 0 iff P in the order-L subgroup (E = Z_L x Z_8)",
           "xrecover(y) returns an even square root of (y^2-1)/(dy^2+1) mod Q when one exists (assumed at full width)"]
ASSUMPTIONS = ["byte-string lengths 0..W+2 (integer groups) and 0..34 (Ed25519); longer strings take the same "
               "length-rejecting path"]


def jobs(tier):
    js = []
    G = ["I1024", "I2048", "I3072"]
    for g in G:
        js.append(("job_int_element_codec", dict(_name="integer decode/encode %s (length W)" % g, gname=g)))
        js.append(("job_int_lengths", dict(_name="integer decode %s wrong lengths" % g, gname=g)))
    for n in ([0, 1, 31, 32, 33, 34] if tier == "quick" else list(range(0, 35))):
        js.append(("job_ed_decode", dict(_name="Ed25519 decode len=%d" % n, n=n)))
    js.append(("job_ed_complete", dict(_name="Ed25519 canonical encodings are accepted")))
    js.append(("job_ed_isoncurve_poly", dict(_name="isoncurve is the curve equation (polynomial)")))
    for cls in "ABS":
        js.append(("job_finish_decodes", dict(_name="finish() decodes before use (%s)" % cls, cls=cls)))
    js.append(("job_pool_ground", dict(_name="constructed encodings pool (ground)")))
    return js


# ------------------------------------------------------------------ integer groups: wrong lengths
def job_int_lengths(J, gname):
    G = loader.MODS["groups"]
    g = getattr(G, gname)
    W = (g.p.bit_length() + 7) // 8
    Flags.pow_stub = member_pow_stub(g.p, g.q)
    J.bounds.update(group=gname, lengths=[0, 1, W - 1, W + 1, W + 2])
    for n in (0, 1, W - 1, W + 1, W + 2):
        def h(ctx, n=n):
            return g.bytes_to_element(SymBytes.fresh_chunk("eb", n))
        for r in J.explore(h):
            J.reach(r)
            J.claim(r, "%d-byte string is refused (W=%d)" % (n, W), r.kind == "exc",
                    cex=lambda m, n=n: dict(group=gname), oracle="pool")
    Flags.pow_stub = None


# ------------------------------------------------------------------ Ed25519
class MulL(tuple):
    """result of scalarmult_element_safe_slow(P, L) under contract K4: only its zero-ness is observable"""
    pass


def _install_ed_stubs(E):
    Q, L = E.Q, E.L
    XR = z3.Function("XRECOVER", z3.IntSort(), z3.IntSort())
    ONC = z3.Function("OnCurve", z3.IntSort(), z3.IntSort(), z3.BoolSort())
    INS = z3.Function("InSubgroup", z3.IntSort(), z3.IntSort(), z3.BoolSort())
    real_slow, real_zero = E.scalarmult_element_safe_slow, E.is_extended_zero

    def xrecover(y):
        if isinstance(y, int):
            return E.__dict__["_real_xrecover"](y)
        c = Ctx.cur
        r = XR(y.t % Q)
        c.side += [r >= 0, r < Q, r % 2 == 0]
        return SymInt(r)

    def isoncurve(P):
        x, y = P[0], P[1]
        if isinstance(x, int) and isinstance(y, int):
            return E.__dict__["_real_isoncurve"](P)
        return SymBool(ONC(T(x) % Q, T(y) % Q))

    def slow(pt, n):
        if any(isinstance(c, SymInt) for c in pt):
            if n != L or not (isinstance(pt[2], int) and pt[2] == 1):
                raise EngineUnsupported("symbolic scalarmult outside the subgroup-test shape")
            m = MulL(pt)
            return m
        return real_slow(pt, n)

    def iszero(XYTZ):
        if isinstance(XYTZ, MulL):
            return bool(SymBool(INS(T(XYTZ[0]) % Q, T(XYTZ[1]) % Q)))
        return real_zero(XYTZ)

    if "_real_xrecover" not in E.__dict__:
        E._real_xrecover, E._real_isoncurve = E.xrecover, E.isoncurve
    E.xrecover, E.isoncurve, E.scalarmult_element_safe_slow, E.is_extended_zero = xrecover, isoncurve, slow, iszero
    return XR, ONC, INS


def job_ed_decode(J, n):
    E = loader.MODS["ed25519_basic"]
    Q = E.Q
    XR, ONC, INS = _install_ed_stubs(E)
    J.bounds.update(length=n)

    def h(ctx):
        b = SymBytes.fresh("b", n)
        ctx.data["b"] = b
        e = E.bytes_to_element(b)
        return e, e.to_bytes()
    for r in J.explore(h):
        b = r.ctx.data["b"]
        J.reach(r)
        cex = lambda m, b=b: dict(group="Ed25519", extra=[b.model_bytes(m)])
        if n != 32:
            J.claim(r, "%d-byte string is refused" % n, r.kind == "exc", cex=cex, oracle="pool")
            continue
        v = b[::-1].value()
        y = v % (2 ** 255)
        sign = v / (2 ** 255)
        if r.kind == "exc":
            continue        # completeness is job_ed_complete
        e, bb = r.value
        ok = isinstance(e, E.Element) and len(e.XYTZ) == 4
        J.claim(r, "accepted string yields an Element", ok, cex=cex, oracle="pool")
        if not ok:
            continue
        X, Y, Z, Tt = e.XYTZ
        J.claim(r, "accepted => the decoded point is on the curve", ONC(T(X) % Q, T(Y) % Q), cex=cex, oracle="pool")
        J.claim(r, "accepted => the decoded point is in the order-L subgroup", INS(T(X) % Q, T(Y) % Q), cex=cex, oracle="pool")
        J.claim(r, "accepted => affine coordinates are reduced, Z=1, y is the encoded y",
                z3.And(T(Z) == 1, T(Y) == y % Q, T(X) >= 0, T(X) < Q), cex=cex, oracle="pool")
        J.claim(r, "accepted => re-encoding equals the input (canonical: y < Q, sign bit = parity of x)",
                SymBytes.of(bb).eq_term(b), cex=cex, oracle="pool")
        J.claim(r, "accepted => not the identity", z3.Not(z3.And(T(X) % Q == 0, T(Y) % Q == 1)), cex=cex, oracle="pool")


def job_ed_complete(J):
    """every canonical encoding of a non-identity subgroup element is accepted (under the xrecover contract)"""
    E = loader.MODS["ed25519_basic"]
    Q = E.Q
    XR, ONC, INS = _install_ed_stubs(E)

    def h(ctx):
        x = SymInt(ctx.fresh("x", 0, Q - 1))
        y = SymInt(ctx.fresh("y", 0, Q - 1))
        ctx.assume(ONC(x.t, y.t))
        ctx.assume(INS(x.t, y.t))
        ctx.assume(z3.Not(z3.And(x.t == 0, y.t == 1)))
        ctx.assume(z3.Implies(y.t == 1, x.t == 0))        # curve fact: y = 1 forces x = 0 (d != -1)
        # xrecover contract for a y that has a root: the even one of {x, Q-x} (x = 0 is its own negative)
        ctx.assume(z3.If(x.t % 2 == 0, XR(y.t) == x.t, XR(y.t) == Q - x.t))
        ctx.assume(z3.Implies(x.t > 0, ONC(Q - x.t, y.t) == ONC(x.t, y.t)))
        ctx.assume(z3.Implies(x.t > 0, INS(Q - x.t, y.t) == INS(x.t, y.t)) if False else z3.BoolVal(True))
        ctx.data["xy"] = (x, y)
        b = E.encodepoint([x, y])
        e = E.bytes_to_element(b)
        return e
    for r in J.explore(h):
        x, y = r.ctx.data["xy"]
        J.reach(r)
        cex = lambda m: dict(group="Ed25519", extra=[])
        if r.kind != "ret":
            J.claim(r, "canonical encoding of a subgroup element is not refused (%s)" % type(r.value).__name__, False,
                    cex=cex, oracle="pool")
            continue
        e = r.value
        J.claim(r, "decoding returns the encoded point", z3.And(T(e.XYTZ[0]) == x.t, T(e.XYTZ[1]) == y.t, T(e.XYTZ[2]) == 1),
                cex=cex, oracle="pool")


def job_ed_isoncurve_poly(J):
    """real isoncurve on polynomial proxies: its residue is the twisted Edwards equation -x^2+y^2-1-d x^2 y^2"""
    E = loader.MODS["ed25519_basic"]
    Q, d = E.Q, E.d

    def h(ctx):
        x, y = SymInt(z3.Int("x")), SymInt(z3.Int("y"))
        res = E.isoncurve([x, y])
        return x, y, res
    for r in J.explore(h, max_paths=4):
        if r.kind != "ret":
            J.claim(r, "isoncurve runs", False)
            continue
        x, y, res = r.value
        # the path decision is  (poly % Q == 0) == res
        curve = -x.t * x.t + y.t * y.t - 1 - (d % Q) * x.t * x.t * y.t * y.t
        want = (curve % Q == 0)
        from symx.core import SymBool as _SB
        if isinstance(res, _SB):
            J.claim(r, "isoncurve(P) <=> -x^2 + y^2 - 1 - d x^2 y^2 = 0 (mod Q)  [returned a condition]", res.t == want,
                    cex=lambda m: dict(group="Ed25519", extra=[]), oracle="pool")
        else:
            J.claim(r, "isoncurve(P) <=> -x^2 + y^2 - 1 - d x^2 y^2 = 0 (mod Q)  [returned %s]" % bool(res),
                    want if res else z3.Not(want), cex=lambda m: dict(group="Ed25519", extra=[]), oracle="pool")


# ------------------------------------------------------------------ finish() decodes before use
def job_finish_decodes(J, cls):
    q = 11
    J.bounds.update(cls=cls)

    def h(ctx):
        setup_hash_axioms(ctx)
        params = abstract_params(q)
        g = params.group
        W = g.element_size_bytes
        log = []
        real_decode = g.bytes_to_element

        def logged(b):
            log.append(("call", b))
            e = real_decode(b)
            log.append(("ok", b))
            return e
        g.bytes_to_element = logged
        pw, idA, idB = sym_inputs((1, 0, 0))
        a = new_instance(cls, params, pw, idA, idB, Entropy("ent"))
        a.start()
        msg = SymBytes.fresh("side", 1) + SymBytes.fresh_chunk("body", W)
        o = outcome(a.finish, msg)
        ctx.data["w"] = dict(log=log, msg=msg, o=o)
        return okind(o)
    for r in J.explore(h):
        J.reach(r)
        w = r.ctx.data.get("w")
        if r.kind != "ret" or r.value != "key":
            continue
        log, msg = w["log"], w["msg"]
        J.claim(r, "a key is returned only after bytes_to_element accepted the peer element",
                [k for k, _ in log] == ["call", "ok"], cex=lambda m: dict(group="Ed25519", extra=[]), oracle="pool")
        if log:
            J.claim(r, "the decoded string is exactly the message body", SymBytes.of(log[0][1]).eq_term(msg[1:]),
                    cex=lambda m: dict(group="Ed25519", extra=[]), oracle="pool")


def job_pool_ground(J):
    for g in ("Ed25519", "I1024", "I2048", "I3072"):
        v, detail = oracle_pool(g, [])
        J.ground("every constructed encoding of %s is classified like the strict reference decoder" % g, not v, detail,
                 oracle="pool", args=dict(group=g, extra=[]))


from checks.pools import oracle_pool, ed_pool, int_pool

ORACLES = dict(pool=oracle_pool)
