"""Independent reference arithmetic used only by the concrete replay oracles and to pin published constants.
Written from RFC 5869, RFC 8032 and the SPAKE2 description -- does not import the package under test."""
import hashlib, hmac

# ------------------------------------------------------------------ HKDF-SHA256 (RFC 5869)
def hkdf_sha256(ikm, length, salt=b"", info=b""):
    prk = hmac.new(salt if salt else bytes(32), ikm, hashlib.sha256).digest()
    okm, t, i = b"", b"", 1
    while len(okm) < length:
        t = hmac.new(prk, t + info + bytes([i]), hashlib.sha256).digest()
        okm += t
        i += 1
    return okm[:length]


def size_bytes(n):
    return ((n.bit_length() or 1) + 7) // 8


def password_to_scalar(pw, q, scalar_size_bytes=None):
    n = size_bytes(q) if scalar_size_bytes is None else scalar_size_bytes
    return int.from_bytes(hkdf_sha256(pw, n + 16, b"", b"SPAKE2 pw"), "big") % q


# ------------------------------------------------------------------ integer groups
def int_arbitrary_element(seed, p, q):
    h = int.from_bytes(hkdf_sha256(seed, size_bytes(p), b"", b"SPAKE2 arbitrary element"), "big") % p
    return pow(h, (p - 1) // q, p)


class RefIntGroup:
    def __init__(self, p, q, g):
        self.p, self.q, self.g = p, q, g
        self.W, self.SW = size_bytes(p), size_bytes(q)

    def enc(self, e):
        return e.to_bytes(self.W, "big")

    def base(self):
        return self.g

    def zero(self):
        return 1

    def add(self, a, b):
        return a * b % self.p

    def mul(self, a, n):
        return pow(a, n % self.q, self.p)

    def arbitrary(self, seed):
        return int_arbitrary_element(seed, self.p, self.q)

    def p2s(self, pw):
        return password_to_scalar(pw, self.q, self.SW)

    def scalar_bytes(self, i):
        return i.to_bytes(self.SW, "big")

    def is_member(self, e):
        return 0 < e < self.p and pow(e, self.q, self.p) == 1

    def decode(self, b):
        if len(b) != self.W:
            return None
        e = int.from_bytes(b, "big")
        return e if self.is_member(e) else None


# ------------------------------------------------------------------ Ed25519 (RFC 8032), affine coordinates
Q = 2 ** 255 - 19
L = 2 ** 252 + 27742317777372353535851937790883648493
D = -121665 * pow(121666, Q - 2, Q) % Q
SQRT_M1 = pow(2, (Q - 1) // 4, Q)


def ed_recover_x(y, sign):
    if y >= Q:
        return None
    x2 = (y * y - 1) * pow(D * y * y + 1, Q - 2, Q) % Q
    if x2 == 0:
        return None if sign else 0
    x = pow(x2, (Q + 3) // 8, Q)
    if (x * x - x2) % Q != 0:
        x = x * SQRT_M1 % Q
    if (x * x - x2) % Q != 0:
        return None
    if (x & 1) != sign:
        x = Q - x
    return x


BY = 4 * pow(5, Q - 2, Q) % Q
BX = ed_recover_x(BY, 0)
ED_BASE = (BX, BY)
ED_ZERO = (0, 1)


def ed_on_curve(P):
    x, y = P
    return (-x * x + y * y - 1 - D * x * x * y * y) % Q == 0


def ed_add(P, R):
    (x1, y1), (x2, y2) = P, R
    t = D * x1 * x2 * y1 * y2 % Q
    x3 = (x1 * y2 + x2 * y1) * pow(1 + t, Q - 2, Q) % Q
    y3 = (y1 * y2 + x1 * x2) * pow(1 - t, Q - 2, Q) % Q
    return (x3, y3)


def _padd(P, R):
    """projective twisted Edwards addition add-2008-bbjlp with a = -1 (complete, since d is a non-square)"""
    X1, Y1, Z1 = P
    X2, Y2, Z2 = R
    A = Z1 * Z2 % Q
    B = A * A % Q
    C = X1 * X2 % Q
    Dd = Y1 * Y2 % Q
    E = D * C * Dd % Q
    F = (B - E) % Q
    G = (B + E) % Q
    X3 = A * F * ((X1 + Y1) * (X2 + Y2) - C - Dd) % Q
    Y3 = A * G * (Dd + C) % Q
    Z3 = F * G % Q
    return (X3, Y3, Z3)


def ed_mul(P, n):
    """n any non-negative integer, any curve point (complete formulas; projective ladder, one inversion)"""
    R = (0, 1, 1)
    A = (P[0], P[1], 1)
    while n > 0:
        if n & 1:
            R = _padd(R, A)
        A = _padd(A, A)
        n >>= 1
    zi = pow(R[2], Q - 2, Q)
    return (R[0] * zi % Q, R[1] * zi % Q)


def ed_neg(P):
    return ((-P[0]) % Q, P[1])


def ed_enc(P):
    x, y = P
    return (y | ((x & 1) << 255)).to_bytes(32, "little")


def ed_dec_strict(b):
    """canonical 32-byte encoding of a curve point, else None"""
    if len(b) != 32:
        return None
    v = int.from_bytes(b, "little")
    y, sign = v & ((1 << 255) - 1), v >> 255
    x = ed_recover_x(y, sign)
    if x is None:
        return None
    P = (x, y)
    return P if ed_on_curve(P) and ed_enc(P) == b else None


def ed_in_subgroup(P):
    return ed_mul(P, L) == ED_ZERO


def ed_arbitrary_increments(seed):
    """how many candidates y, y+1, ... the published construction skips for this seed before the first usable point"""
    y = int.from_bytes(hkdf_sha256(seed, 48, b"", b"SPAKE2 arbitrary element"), "big") % Q
    plus = 0
    while True:
        yp = (y + plus) % Q
        xx = (yp * yp - 1) * pow(D * yp * yp + 1, Q - 2, Q) % Q
        if xx == 0 or pow(xx, (Q - 1) // 2, Q) == 1:
            if ed_mul((_arb_recover_x(yp), yp), 8) != ED_ZERO:
                return plus
        plus += 1


def _arb_recover_x(yp):
    xx = (yp * yp - 1) * pow(D * yp * yp + 1, Q - 2, Q) % Q
    x = pow(xx, (Q + 3) // 8, Q)
    if (x * x - xx) % Q != 0:
        x = x * SQRT_M1 % Q
    if x % 2 != 0:
        x = Q - x
    return x


def ed_arbitrary_element(seed):
    y = int.from_bytes(hkdf_sha256(seed, 48, b"", b"SPAKE2 arbitrary element"), "big") % Q
    plus = 0
    while True:
        yp = (y + plus) % Q
        plus += 1
        xx = (yp * yp - 1) * pow(D * yp * yp + 1, Q - 2, Q) % Q
        x = pow(xx, (Q + 3) // 8, Q)
        if (x * x - xx) % Q != 0:
            x = x * SQRT_M1 % Q
        if x % 2 != 0:
            x = Q - x
        P = (x, yp)
        if not ed_on_curve(P):
            continue
        P8 = ed_mul(P, 8)
        if P8 == ED_ZERO:
            continue
        assert ed_in_subgroup(P8)
        return P8


class RefEdGroup:
    q = L
    W = SW = 32

    def enc(self, e):
        return ed_enc(e)

    def base(self):
        return ED_BASE

    def zero(self):
        return ED_ZERO

    def add(self, a, b):
        return ed_add(a, b)

    def mul(self, a, n):
        return ed_mul(a, n % L)

    def arbitrary(self, seed):
        return ed_arbitrary_element(seed)

    def p2s(self, pw):
        return password_to_scalar(pw, L, 32)

    def scalar_bytes(self, i):
        return (i % L).to_bytes(32, "little")

    def decode(self, b):
        P = ed_dec_strict(b)
        if P is None or P == ED_ZERO or not ed_in_subgroup(P):
            return None
        return P


# ------------------------------------------------------------------ SPAKE2 by the book
def _h(b):
    return hashlib.sha256(b).digest()


def spake2_message(G, side, pw, x, seeds=(b"M", b"N", b"symmetric")):
    blind = {"A": seeds[0], "B": seeds[1], "S": seeds[2]}[side]
    w = G.p2s(pw)
    e = G.add(G.mul(G.base(), x), G.mul(G.arbitrary(blind), w))
    return side.encode() + G.enc(e)


def spake2_key(G, side, pw, idA, idB, x, inbound, seeds=(b"M", b"N", b"symmetric")):
    """inbound: full peer message (side byte + element); idB ignored for symmetric. Returns key or None if the
    element must be refused."""
    unblind = {"A": seeds[1], "B": seeds[0], "S": seeds[2]}[side]
    w = G.p2s(pw)
    Y = G.decode(inbound[1:])
    if Y is None:
        return None
    K = G.mul(G.add(Y, G.mul(G.arbitrary(unblind), (-w) % G.q)), x)
    kb = G.enc(K)
    own = spake2_message(G, side, pw, x, seeds)[1:]
    if side == "A":
        t = _h(pw) + _h(idA) + _h(idB) + own + inbound[1:] + kb
    elif side == "B":
        t = _h(pw) + _h(idA) + _h(idB) + inbound[1:] + own + kb
    else:
        lo, hi = sorted([own, inbound[1:]])
        t = _h(pw) + _h(idA) + lo + hi + kb
    return _h(t)


def is_probable_prime(n, rounds=24):
    if n < 2:
        return False
    for sp in (2, 3, 5, 7, 11, 13, 17, 19, 23, 29, 31, 37):
        if n % sp == 0:
            return n == sp
    d, s = n - 1, 0
    while d % 2 == 0:
        d //= 2
        s += 1
    for a in (2, 3, 5, 7, 11, 13, 17, 19, 23, 29, 31, 37, 41, 43, 47, 53, 59, 61, 67, 71, 73, 79, 83, 89)[:rounds]:
        x = pow(a, d, n)
        if x in (1, n - 1):
            continue
        for _ in range(s - 1):
            x = x * x % n
            if x == n - 1:
                break
        else:
            return False
    return True
