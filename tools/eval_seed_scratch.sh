#!/bin/bash
# like eval_seed.sh but never touches /repo: the patch is applied in a scratch worktree and the checks are pointed at
# it with SPAKE2_VERIF_TREE (experiments only; evidence is never written from here: VERIF_EVIDENCE_DIR is redirected)
set -u
ID=$1; NAME=${2:-$ID}; shift; shift 2>/dev/null
SRC=/tmp/wt/$ID/MUTANT; [ -f $SRC/patch.diff ] || SRC=/verif/seeded/$NAME
W=/tmp/evalwt_$NAME
git -C /repo worktree remove --force $W 2>/dev/null
git -C /repo worktree add -q --detach $W HEAD
cd $W
PYTHONPATH=$W/src /venv/bin/python $SRC/demo.py >/dev/null 2>&1; CLEAN=$?
git apply $SRC/patch.diff || { echo "patch does not apply"; git -C /repo worktree remove --force $W; exit 3; }
TESTS=$(PYTHONPATH=$W/src /venv/bin/python -m pytest -q -p no:cacheprovider src/spake2/test 2>&1 | tail -1)
PYTHONPATH=$W/src /venv/bin/python $SRC/demo.py >/dev/null 2>&1; MUT=$?
cd /verif
echo "seed $NAME: tests='$TESTS' demo_clean=$CLEAN demo_mutated=$MUT"
for c in $ID "$@"; do
  out=$(SPAKE2_VERIF_TREE=$W VERIF_EVIDENCE_DIR=/tmp/ev_$NAME ./run $c quick 2>&1); rc=$?
  echo "$out" > /tmp/evalout_${NAME}_$c.log
  line=$(echo "$out" | grep -E "^$c " | tail -1)
  nv=$(echo "$out" | grep -c "^VIOLATION")
  first=$(echo "$out" | grep -A1 "^VIOLATION" | grep "what:" | head -1 | cut -c1-260)
  echo "  check $c: exit=$rc violations=$nv :: $line"
  [ -n "$first" ] && echo "    $first"
done
git -C /repo worktree remove --force $W
rm -rf /tmp/ev_$NAME
