#!/bin/bash
# tools/sweep_seeds.sh [pattern]: run every seeded change under /verif/seeded (patch.diff + meta.json) against its property's
# quick check in a scratch worktree (never touches /repo) and print one line per seed; non-detections are listed at the end
cd "$(dirname "$0")/.."
PAT=${1:-.}
miss=""
for d in seeded/*/; do
  n=$(basename $d)
  case $n in benign-*) continue;; esac
  echo $n | grep -qE "$PAT" || continue
  id=$(python3 -c "import json;print(json.load(open('$d/meta.json'))['property'])" 2>/dev/null) || continue
  W=/tmp/sweepwt_$n
  git -C /repo worktree remove --force $W 2>/dev/null
  git -C /repo worktree add -q --detach $W HEAD
  ( cd $W && git apply /verif/$d/patch.diff ) || { echo "$n: patch does not apply"; git -C /repo worktree remove --force $W; continue; }
  out=$(SPAKE2_VERIF_TREE=$W VERIF_EVIDENCE_DIR=/tmp/ev_sweep ./run $id quick 2>&1); rc=$?
  nv=$(echo "$out" | grep -c "^VIOLATION")
  echo "$n: $id exit=$rc violations=$nv"
  [ $rc -eq 1 ] && [ $nv -gt 0 ] || miss="$miss $n"
  git -C /repo worktree remove --force $W
done
rm -rf /tmp/ev_sweep
echo "NOT DETECTED:${miss:- none}"
