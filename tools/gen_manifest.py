#!/usr/bin/env python3
"""regenerates /verif/MANIFEST.json from the table below (kept valid at all times)"""
import json, os, sys, importlib
HERE = os.path.dirname(os.path.dirname(os.path.abspath(__file__)))
sys.path.insert(0, HERE)
props = [json.loads(l) for l in open(os.path.join(HERE, "properties.jsonl"))]
LEVEL_TEXT = ("Bounded symbolic execution of the repository's own function bodies on z3-backed proxy values; every "
              "obligation is decided by the SMT solver (unsat of path-condition & not-assertion) for all values "
              "inside the stated bounds; sat models are replayed on the unmodified package before a VIOLATION is "
              "printed; unknown is never success. Not a proof (bounds, stubs, trusted base are stated), not sampling.")
checks, na = [], []
for p in props:
    pid = p["id"]
    f = os.path.join(HERE, "checks", "c%s.py" % pid[1:])
    meta = {}
    if os.path.exists(f):
        src = open(f).read()
        ns = {}
        # cheap: read MANIFEST_* literals without importing z3
        import ast
        for node in ast.parse(src).body:
            if isinstance(node, ast.Assign) and len(node.targets) == 1 and isinstance(node.targets[0], ast.Name) \
                    and node.targets[0].id in ("TECHNIQUE", "LEVEL_NOTE", "DESIGN_REF", "NOT_APPLICABLE", "LEVEL_EXTRA"):
                meta[node.targets[0].id] = ast.literal_eval(node.value)
    if not os.path.exists(f) or meta.get("NOT_APPLICABLE"):
        na.append(dict(property_id=pid, reason=meta.get("NOT_APPLICABLE") or
                       "check not built yet in this round (planned: DESIGN.md section 3 %s); no claim is made" % pid))
        continue
    checks.append(dict(
        property_id=pid,
        quick_cmd="./run %s quick" % pid,
        thorough_cmd="./run %s thorough" % pid,
        evidence_file="/verif/evidence/%s.json" % pid,
        replay_cmd_template="./run --replay {path}",
        engine="symx",
        level_claimed=dict(category="other", text=LEVEL_TEXT + " " + meta.get("LEVEL_EXTRA", ""),
                           design_ref=meta.get("DESIGN_REF", "DESIGN.md section 3 " + pid)),
        level_note=meta.get("LEVEL_NOTE", "see evidence.assumptions and DESIGN.md section 2.6 (trusted base)"),
        technique=meta.get("TECHNIQUE", "symbolic execution of the real Python code on z3 proxies + SMT (z3 5.1)"),
    ))
m = dict(
    version=1,
    setup_cmd="./setup.sh",
    hooks=dict(guard="SPAKE2_VERIF", enable="none needed: instrumentation is applied at import time from /verif "
               "(symx.loader re-imports /repo/src/spake2 through an AST pass); no source hooks exist in /repo",
               baseline_off_cmd="cd /repo && /venv/bin/python -m pytest -ra -q -p no:cacheprovider --timeout=900 "
                                "--continue-on-collection-errors",
               source_commits=[], add_only=True),
    engines=[dict(name="symx", path="/verif/symx", serves_properties=[c["property_id"] for c in checks],
                  kind_free_text="proxy-based symbolic execution of the repository's Python source with z3 5.1 "
                                 "(cvc5 1.4 as cross-check); path explorer by re-execution; concrete replay of every "
                                 "counterexample on the plain package")],
    checks=checks,
    not_applicable=na,
    notes="All checks rebuild their encoding from /repo/src/spake2 on every run. Exit 0 held, 1 VIOLATION (replayed), "
          "2 inconclusive (never on the unchanged tree). Known findings: /verif/known_findings.json.",
)
json.dump(m, open(os.path.join(HERE, "MANIFEST.json"), "w"), indent=1)
import jsonschema
jsonschema.validate(m, json.load(open("/root/.vp/MANIFEST.schema.json")))
print("MANIFEST ok:", len(checks), "checks,", len(na), "not applicable")
