#!/bin/bash
# tools/eval_refactor.sh <Cxx> <name> [checks...]: apply a behaviour-preserving refactoring (/tmp/wt/<Cxx>/REFACTOR/patch.diff) in a
# scratch worktree and run the quick checks against it: every check must exit 0 (false-alarm test)
set -u
ID=$1; NAME=$2; shift; shift
SRC=/tmp/wt/$ID/REFACTOR
W=/tmp/evalwt_$NAME
git -C /repo worktree remove --force $W 2>/dev/null
git -C /repo worktree add -q --detach $W HEAD
cd $W && git apply $SRC/patch.diff || { echo "patch does not apply"; exit 3; }
TESTS=$(PYTHONPATH=$W/src /venv/bin/python -m pytest -q -p no:cacheprovider src/spake2/test 2>&1 | tail -1)
EQ=$(PYTHONPATH=$W/src /venv/bin/python $SRC/equiv.py >/dev/null 2>&1; echo $?)
cd /verif
echo "refactor $NAME: tests='$TESTS' equiv_exit=$EQ"
CH=${@:-C01 C02 C03 C04 C05 C06 C07 C08 C09 C10 C11 C12 C13 C14 C15 C16 C17 C18}
for c in $CH; do
  out=$(SPAKE2_VERIF_TREE=$W VERIF_EVIDENCE_DIR=/tmp/ev_$NAME ./run $c quick 2>&1); rc=$?
  line=$(echo "$out" | grep -E "^$c " | tail -1)
  echo "  $c exit=$rc :: $line"
  if [ $rc -ne 0 ]; then echo "$out" | grep -E "VIOLATION|what:|INCONCLUSIVE|note:" | head -6 | cut -c1-300; fi
done
git -C /repo worktree remove --force $W
rm -rf /tmp/ev_$NAME
mkdir -p /verif/seeded/benign-$NAME && cp $SRC/patch.diff $SRC/notes.md /verif/seeded/benign-$NAME/ 2>/dev/null
