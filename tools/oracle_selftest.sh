#!/bin/bash
# tools/oracle_selftest.sh [Cxx ...]: development aid, not a registered command.  Runs the quick jobs with
# VERIF_ORACLE_SELFTEST=1: models of paths whose obligations HOLD are pushed through the replay oracles, which must all
# answer "not violated" on the unchanged tree.  Finds latent bugs in oracles (they otherwise run only after a failure).
cd "$(dirname "$0")/.."
CH=${@:-C01 C02 C03 C04 C05 C06 C07 C08 C09 C10 C11 C12 C13 C14 C15 C16 C17 C18}
for c in $CH; do
  VERIF_ORACLE_SELFTEST=1 VERIF_EVIDENCE_DIR=/tmp/ev_selftest ./run $c quick 2>&1 | grep "ORACLE-SELFTEST"
done
rm -rf /tmp/ev_selftest
