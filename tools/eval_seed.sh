#!/bin/bash
# tools/eval_seed.sh <Cxx> [name] [checks...]  -- verify a seeded change produced in /tmp/wt/<Cxx>/MUTANT and run checks against it
# 1. confirms in a fresh scratch worktree: suite passes with the patch; demo exits 1 with it and 0 without
# 2. applies it to /repo, runs the property's quick check (plus extra checks given), reverts /repo
# 3. stores patch, demo, meta.json under /verif/seeded/<name>/
set -u
ID=$1; NAME=${2:-$ID}; shift; shift 2>/dev/null
SRC=/tmp/wt/$ID/MUTANT
[ -f $SRC/patch.diff ] || { echo "no patch"; exit 2; }
W=/tmp/evalwt_$NAME
git -C /repo worktree remove --force $W 2>/dev/null
git -C /repo worktree add -q --detach $W HEAD
cd $W
PYTHONPATH=$W/src /venv/bin/python $SRC/demo.py >/tmp/demo_clean.out 2>&1; CLEAN=$?
git apply $SRC/patch.diff || { echo "patch does not apply"; git -C /repo worktree remove --force $W; exit 3; }
TESTS=$(PYTHONPATH=$W/src /venv/bin/python -m pytest -q -p no:cacheprovider src/spake2/test 2>&1 | tail -1)
PYTHONPATH=$W/src /venv/bin/python $SRC/demo.py >/tmp/demo_mut.out 2>&1; MUT=$?
cd /verif
git -C /repo worktree remove --force $W
echo "seed $NAME: tests='$TESTS' demo_clean=$CLEAN demo_mutated=$MUT"
[ -z "$(git -C /repo status --short)" ] || { echo "/repo not clean"; exit 4; }
git -C /repo apply $SRC/patch.diff
RES=""
for c in $ID "$@"; do
  out=$(VERIF_EVIDENCE_DIR=/tmp/ev_seed_$NAME ./run $c quick 2>&1); rc=$?
  line=$(echo "$out" | grep -E "^$c " | tail -1)
  nv=$(echo "$out" | grep -c "^VIOLATION")
  first=$(echo "$out" | grep -A1 "^VIOLATION" | grep "what:" | head -1 | cut -c1-260)
  echo "  check $c: exit=$rc violations=$nv :: $line"
  [ -n "$first" ] && echo "    $first"
  RES="$RES{\"check\":\"$c\",\"exit\":$rc,\"violation_lines\":$nv},"
done
git -C /repo checkout -- .
mkdir -p seeded/$NAME
cp $SRC/patch.diff seeded/$NAME/patch.diff; cp $SRC/demo.py seeded/$NAME/demo.py; cp $SRC/notes.md seeded/$NAME/notes.md 2>/dev/null
python3 - <<PY
import json
meta=dict(property="$ID", name="$NAME", tests_with_patch="$TESTS", demo_exit_clean=$CLEAN, demo_exit_mutated=$MUT,
          checks=json.loads('[' + '''$RES'''.rstrip(',') + ']'),
          needs=open("$SRC/notes.md").read()[:1500] if __import__("os").path.exists("$SRC/notes.md") else "",
          ran="tools/eval_seed.sh $ID $NAME (fresh worktree of /repo HEAD: pytest with patch; demo with/without patch; then git -C /repo apply, ./run <check> quick, git -C /repo checkout -- .)")
json.dump(meta, open("seeded/$NAME/meta.json","w"), indent=1)
PY
