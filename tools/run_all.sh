#!/bin/bash
# tools/run_all.sh [quick|thorough]  -- every check on the current tree, summary lines only
cd "$(dirname "$0")/.."
T=${1:-quick}
for i in 01 02 03 04 05 06 07 08 09 10 11 12 13 14 15 16 17 18; do
  s=$(date +%s); out=$(./run C$i $T 2>&1); rc=$?
  echo "$out" | grep -E "^C$i |VIOLATION|KNOWN-FINDING|INCONCLUSIVE" | cut -c1-220
  echo "   exit=$rc $(( $(date +%s)-s ))s"
done
