#!/bin/bash
# tools/mut.sh <patchfile|-e 'sed expr' file> -- <check ids...>   apply a change to /repo, run checks, revert
set -u
cd /repo
if [ "$1" = "-e" ]; then sed -i "$2" "$3"; shift 3; else git apply "$1" || exit 9; shift; fi
shift  # --
git diff --stat | tail -1
cd /verif
for c in "$@"; do ./run $c ${TIER:-quick} 2>&1 | grep -E "VIOLATION|KNOWN|INCONCLUSIVE|->" | head -${LINES_MAX:-6}; echo "exit=$?"; done
git -C /repo checkout -- .
