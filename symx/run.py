"""python -m symx.run C15 quick|thorough   |   python -m symx.run --replay <file>"""
import sys, importlib


def main():
    if len(sys.argv) >= 3 and sys.argv[1] == "--replay":
        from . import replay
        sys.argv = [sys.argv[0], "--file", sys.argv[2]]
        return replay.main()
    pid = sys.argv[1].upper()
    mod = importlib.import_module("checks.c%s" % pid[1:].lower())
    from . import harness
    return harness.main(mod, sys.argv[2:])


if __name__ == "__main__":
    sys.exit(main())
