"""symx.absgroup -- an abstract cyclic group of concrete prime order q that duck-types the interface
spake2.py / params.py use.  Elements are carried as their discrete logarithm (a normalised integer
polynomial, never reduced mod q); encodings are an uninterpreted injective map ENC: Z_q -> W bytes.
The contract of this group (GC1..GC5 in DESIGN.md) is what C13/C15/C05/C14/C11 establish for the real groups.
"""
import z3
from .core import Ctx, SymInt, SymBool, SymBytes, Chunk, T, EngineUnsupported, PathAbort, _mk_bool


def norm(t):
    return z3.simplify(t, som=True)


def reduce_coeffs(t, q):
    """canonical representative mod q of a sum-of-monomials polynomial: integer coefficients reduced into [0,q),
    vanishing monomials dropped"""
    t = z3.simplify(t, som=True)
    terms = list(t.children()) if (z3.is_app(t) and t.decl().kind() == z3.Z3_OP_ADD) else [t]
    out = []
    const = 0
    for m in terms:
        if z3.is_int_value(m):
            const += m.as_long()
            continue
        c, rest = 1, m
        if z3.is_app(m) and m.decl().kind() == z3.Z3_OP_MUL and z3.is_int_value(m.arg(0)):
            c = m.arg(0).as_long()
            rs = m.children()[1:]
            rest = rs[0] if len(rs) == 1 else z3.Product(rs)
        elif z3.is_app(m) and m.decl().kind() == z3.Z3_OP_UMINUS:
            c, rest = -1, m.arg(0)
        c %= q
        if c == 0:
            continue
        out.append(rest if c == 1 else z3.IntVal(c) * rest)
    const %= q
    if const or not out:
        out.append(z3.IntVal(const))
    return out[0] if len(out) == 1 else z3.Sum(out)


def norm_mod(t, q):
    """normal form of a discrete-log polynomial modulo q"""
    return reduce_coeffs(strip_mod(t, q), q)


def strip_mod(t, q):
    """rewrite a discrete-log polynomial modulo q: (a mod q) is replaced by a wherever it occurs as a summand or
    factor (sound: only congruence classes mod q of logs are ever observed)"""
    if not z3.is_expr(t):
        return t
    k = t.decl().kind() if z3.is_app(t) else None
    if k == z3.Z3_OP_MOD:
        m = t.arg(1)
        if z3.is_int_value(m) and m.as_long() == q:
            return strip_mod(t.arg(0), q)
        return t
    if k in (z3.Z3_OP_ADD, z3.Z3_OP_MUL, z3.Z3_OP_SUB, z3.Z3_OP_UMINUS):
        args = [strip_mod(a, q) for a in t.children()]
        if k == z3.Z3_OP_ADD:
            return z3.Sum(args) if len(args) > 1 else args[0]
        if k == z3.Z3_OP_MUL:
            return z3.Product(args) if len(args) > 1 else args[0]
        if k == z3.Z3_OP_SUB:
            r = args[0]
            for a in args[1:]:
                r = r - a
            return r
        return -args[0]
    return t


class AbsElem:
    def __init__(self, group, log):
        self.group = group
        self.log = log

    def add(self, other):
        if not isinstance(other, AbsElem):
            raise TypeError("elements can only be added to other elements")
        assert other.group is self.group
        return AbsElem(self.group, self.log + other.log)

    def scalarmult(self, s):
        if isinstance(s, AbsElem):
            raise TypeError("elements cannot be multiplied together")
        if not isinstance(s, (int, SymInt)):
            raise TypeError("E*N requires N be a scalar")
        return AbsElem(self.group, self.log * T(s))

    def to_bytes(self):
        return self.group._encode(self)

    def __eq__(self, other):
        return self.to_bytes() == other.to_bytes()

    def __ne__(self, other):
        return not (self == other)
    __hash__ = None


class AbsGroup:
    """tag distinguishes independent groups inside one query (their ENC/P2S/RS symbols are unrelated)"""

    def __init__(self, q, tag="G", rejects_identity=False, base_log=None, share=None):
        self.q = q
        self.tag = tag
        self.rejects_identity = rejects_identity
        self.scalar_size_bytes = (q.bit_length() + 7) // 8
        self.element_size_bytes = self.scalar_size_bytes + 1
        s = share.tag if share is not None else tag           # share: same field/encoding, different generator
        self.ENC = z3.Function("ENC_%s" % s, z3.IntSort(), z3.IntSort())
        self.RS = z3.Function("RS_%s" % s, z3.IntSort(), z3.IntSort())
        self.VALID = z3.Function("VALID_%s" % s, z3.IntSort(), z3.BoolSort())     # is this W-byte value an encoding?
        self.DLOG = z3.Function("DLOG_%s" % s, z3.IntSort(), z3.IntSort())       # ... of which element
        self.enc_key = "encs_" + s
        self.Base = AbsElem(self, z3.IntVal(1) if base_log is None else base_log)
        self.Zero = AbsElem(self, z3.IntVal(0))
        ctx = Ctx.cur
        self.entropy_requests = []
        if injectivity_axioms not in ctx.axiom_providers:
            ctx.axiom_providers.append(injectivity_axioms)
        ctx.table("groups").append(self)

    def order(self):
        return self.q

    # -- scalars
    def password_to_scalar(self, pw):
        assert isinstance(pw, (bytes, SymBytes))
        pw = SymBytes.of(pw)
        f = z3.Function("P2S_%s_%d" % (self.tag, len(pw)), z3.IntSort(), z3.IntSort())
        w = f(z3.simplify(pw.value()))
        Ctx.cur.side += [w >= 0, w < self.q]
        Ctx.cur.table("p2s").append((self, pw, w))
        return SymInt(w)

    def random_scalar(self, entropy_f):
        n = self.scalar_size_bytes + 8
        b = entropy_f(n)
        self.entropy_requests.append(n)
        b = SymBytes.of(b)
        if len(b) != n:
            raise AssertionError("entropy function returned %d bytes, %d requested" % (len(b), n))
        x = self.RS(z3.simplify(b.value()))
        Ctx.cur.side += [x >= 0, x < self.q]
        Ctx.cur.table("rs").append((self, b, x))
        return SymInt(x)

    def scalar_to_bytes(self, i):
        if not isinstance(i, (int, SymInt)):
            raise AssertionError("scalar must be an int")
        if isinstance(i, int):
            if not 0 <= i < self.q:
                raise ValueError("scalar out of range")
            return i.to_bytes(self.scalar_size_bytes, "big")
        if i < 0:
            raise ValueError("negative scalar")
        if i >= self.q:
            raise ValueError("scalar out of range")
        return SymBytes.from_int(i.t, self.scalar_size_bytes)

    def bytes_to_scalar(self, b):
        b = SymBytes.of(b)
        assert len(b) == self.scalar_size_bytes
        v = SymInt(z3.simplify(b.value()))
        r = v < self.q
        assert r
        return v

    # -- elements
    def arbitrary_element(self, seed):
        assert isinstance(seed, bytes)
        c = Ctx.cur
        v = z3.Int("dlog_%s_%s" % (self.tag, seed.hex()))
        c.side += [v >= 1, v < self.q]
        c.table("seeds").append((self, seed, v))
        return AbsElem(self, v)

    def _encode(self, e):
        assert isinstance(e, AbsElem) and e.group is self
        c = Ctx.cur
        lg = norm(e.log)
        tab = c.table(self.enc_key)
        for (l2, t2) in tab:
            if l2.eq(lg):
                return SymBytes.from_int(t2, self.element_size_bytes)
        t = self.ENC(lg)
        c.side += [t >= 0, t < 256 ** self.element_size_bytes, self.VALID(t)]
        tab.append((lg, t))
        return SymBytes.from_int(t, self.element_size_bytes)

    def bytes_to_element(self, b):
        assert isinstance(b, (bytes, SymBytes))
        b = SymBytes.of(b)
        if len(b) != self.element_size_bytes:
            raise AssertionError("wrong element length")
        c = Ctx.cur
        v = z3.simplify(b.value())
        tab = c.table(self.enc_key)
        found = None
        for (lg, t) in list(tab):                      # the very encoding some element produced: that element
            if t.eq(v) or z3.simplify(t).eq(v):
                found = lg
                break
        if found is None:
            for (lg, t) in list(tab):                  # which known element is it?
                r = _mk_bool(t == v)
                if r is True or (r is not False and bool(r)):
                    found = lg
                    break
        if found is None:
            # some other byte string: decoding is a function of the bytes (VALID/DLOG are uninterpreted)
            if SymBool(self.VALID(v)):
                k = self.DLOG(v)
                c.side.append(self.ENC(k) == v)
                tab.append((k, self.ENC(k)))
                found = k
                c.table("decoded_fresh").append((self, k))
            else:
                raise ValueError("not an element of the group")
        if self.rejects_identity:
            if SymBool(found % self.q == 0):
                raise ValueError("element was Zero")
        return AbsElem(self, found)


def injectivity_axioms(ctx):
    """ENC(a) == ENC(b)  <=>  q | a-b   for the encodings that occur in this query"""
    ax = []
    seen = set()
    for g in ctx.table("groups"):
        if g.enc_key in seen:
            continue
        seen.add(g.enc_key)
        tab = ctx.table(g.enc_key)
        for i in range(len(tab)):
            for j in range(i):
                (l1, t1), (l2, t2) = tab[i], tab[j]
                ax.append((t1 == t2) == ((l1 - l2) % g.q == 0))
    return ax
