"""symx.loader -- private import of /repo/src/spake2 from the current working tree.

The package is imported under the alias ``spk`` straight from source (no .pyc),
through one AST transformer that (a) reroutes the two syntactic forms CPython
dispatches to C without consulting a proxy -- ``left % right`` and
``sep.join(xs)`` -- to helper functions that are the identity on concrete
operands, and (b) records which functions are entered (evidence:
functions_encoded).  Function bodies are otherwise the repository's.
The plain ``spake2`` package stays importable for replay.
"""
import ast, sys, os, importlib, importlib.abc, importlib.machinery, importlib.util, builtins

# the tree under test: /repo unless SPAKE2_VERIF_TREE names another checkout (used only for experiments on scratch
# worktrees; the registered commands always run against /repo)
TREE = os.environ.get("SPAKE2_VERIF_TREE", "/repo")
REPO_SRC = os.path.join(TREE, "src", "spake2")
ALIAS = "spk"
ENTERED = set()


def _enter(name):
    ENTERED.add(name)


class _Reroute(ast.NodeTransformer):
    def __init__(self, modname):
        self.modname = modname
        self.stack = []

    def visit_BinOp(self, node):
        self.generic_visit(node)
        if isinstance(node.op, ast.Mod):
            return ast.copy_location(
                ast.Call(func=ast.Name("__sym_mod__", ast.Load()), args=[node.left, node.right], keywords=[]), node)
        return node

    def visit_Call(self, node):
        self.generic_visit(node)
        if isinstance(node.func, ast.Attribute) and node.func.attr == "join" and len(node.args) == 1 \
                and not node.keywords:
            return ast.copy_location(
                ast.Call(func=ast.Name("__sym_join__", ast.Load()), args=[node.func.value, node.args[0]],
                         keywords=[]), node)
        return node

    def visit_ClassDef(self, node):
        self.stack.append(node.name)
        self.generic_visit(node)
        self.stack.pop()
        return node

    def visit_FunctionDef(self, node):
        self.stack.append(node.name)
        self.generic_visit(node)
        qual = self.modname + "." + ".".join(self.stack)
        self.stack.pop()
        probe = ast.Expr(ast.Call(func=ast.Name("__sym_enter__", ast.Load()), args=[ast.Constant(qual)], keywords=[]))
        body = node.body
        # keep a docstring first
        k = 1 if (body and isinstance(body[0], ast.Expr) and isinstance(getattr(body[0], "value", None), ast.Constant)
                  and isinstance(body[0].value.value, str)) else 0
        node.body = body[:k] + [ast.copy_location(probe, node)] + body[k:]
        return node


class _Loader(importlib.machinery.SourceFileLoader):
    def source_to_code(self, data, path, *, _optimize=-1):
        tree = ast.parse(data, path)
        modname = os.path.splitext(os.path.basename(path))[0]
        tree = _Reroute(modname).visit(tree)
        ast.fix_missing_locations(tree)
        return compile(tree, path, "exec", dont_inherit=True, optimize=0)

    def get_code(self, fullname):           # never use .pyc caches
        fn = self.get_filename(fullname)
        return self.source_to_code(self.get_data(fn), fn)


class _Finder(importlib.abc.MetaPathFinder):
    def find_spec(self, fullname, path, target=None):
        if fullname != ALIAS and not fullname.startswith(ALIAS + "."):
            return None
        rel = fullname.split(".")[1:]
        base = os.path.join(REPO_SRC, *rel)
        if os.path.isdir(base):
            f = os.path.join(base, "__init__.py")
            return importlib.util.spec_from_file_location(fullname, f, loader=_Loader(fullname, f),
                                                          submodule_search_locations=[base])
        f = base + ".py"
        if os.path.exists(f):
            return importlib.util.spec_from_file_location(fullname, f, loader=_Loader(fullname, f))
        return None


_installed = False
MODS = {}


def load():
    """import the instrumented copy; returns dict of its modules (util, groups, ...)"""
    global _installed
    from . import env
    if not _installed:
        builtins.__sym_mod__ = env.sym_mod        # needed before import: module level code uses %
        builtins.__sym_join__ = env.sym_join
        builtins.__sym_enter__ = _enter
        sys.meta_path.insert(0, _Finder())
        _installed = True
    if not MODS:
        importlib.import_module(ALIAS)
        for n in ("util", "groups", "ed25519_basic", "ed25519_group", "params", "spake2",
                  "parameters.ed25519", "parameters.i1024", "parameters.i2048", "parameters.i3072",
                  "parameters.all"):
            MODS[n] = importlib.import_module(ALIAS + "." + n)
        for n in ("util", "groups", "ed25519_basic", "ed25519_group", "params", "spake2"):
            env.instrument(MODS[n])
        ENTERED.clear()
    return MODS


def source_digest():
    import hashlib
    h = hashlib.sha256()
    for root, _, files in sorted(os.walk(REPO_SRC)):
        if "/test" in root:
            continue
        for f in sorted(files):
            if f.endswith(".py") and f != "_version.py":
                h.update(open(os.path.join(root, f), "rb").read())
    return h.hexdigest()[:16]
