"""symx.proto -- helpers to drive the real SPAKE2 classes symbolically"""
import z3
from .core import Ctx, SymBytes, SymInt, SymBool, EngineUnsupported, PathAbort
from . import loader, env
from .absgroup import AbsGroup, AbsElem, injectivity_axioms


class Entropy:
    """an entropy function returning fresh symbolic bytes; counts and records every request"""
    def __init__(self, name, max_calls=8):
        self.name, self.calls, self.max_calls = name, [], max_calls

    def __call__(self, n):
        if isinstance(n, SymInt):
            raise EngineUnsupported("symbolic entropy request size")
        if len(self.calls) >= self.max_calls:
            raise PathAbort("entropy draws beyond cap %d" % self.max_calls)
        b = SymBytes.fresh_chunk("%s_%d" % (self.name, len(self.calls)), n)
        self.calls.append((n, b))
        return b


def setup_hash_axioms(ctx):
    if env.no_collision_axioms not in ctx.axiom_providers:
        ctx.axiom_providers.append(env.no_collision_axioms)


EXC_OK = (Exception,)


def outcome(f, *a, **k):
    """('ret', value) or ('exc', exception-class-name, exception)"""
    try:
        return ("ret", f(*a, **k))
    except EngineUnsupported:
        raise
    except Exception as e:
        return ("exc", type(e).__name__, e)


def okind(o):
    return "key" if o[0] == "ret" else o[1]
