"""symx.proto -- helpers to drive the real SPAKE2 classes symbolically"""
import z3
from .core import Ctx, SymBytes, SymInt, SymBool, EngineUnsupported, PathAbort
from . import loader, env
from .absgroup import AbsGroup, AbsElem, injectivity_axioms


class Entropy:
    """an entropy function returning fresh symbolic bytes; counts and records every request.
    Like a buffered pool object it is a callable that happens to be falsy (len() == 0): code that tests the truth
    value of the supplied entropy source instead of calling it is thereby exposed."""
    def __init__(self, name, max_calls=8):
        self.name, self.calls, self.max_calls = name, [], max_calls

    def __len__(self):
        return 0

    def __call__(self, n):
        if isinstance(n, SymInt):
            raise EngineUnsupported("symbolic entropy request size")
        if len(self.calls) >= self.max_calls:
            raise PathAbort("entropy draws beyond cap %d" % self.max_calls)
        b = SymBytes.fresh_chunk("%s_%d" % (self.name, len(self.calls)), n)
        self.calls.append((n, b))
        return b


def setup_hash_axioms(ctx):
    if env.no_collision_axioms not in ctx.axiom_providers:
        ctx.axiom_providers.append(env.no_collision_axioms)


EXC_OK = (Exception,)


def outcome(f, *a, **k):
    """('ret', value) or ('exc', exception-class-name, exception)"""
    try:
        return ("ret", f(*a, **k))
    except EngineUnsupported:
        raise
    except Exception as e:
        return ("exc", type(e).__name__, e)


def okind(o):
    return "key" if o[0] == "ret" else o[1]


# ------------------------------------------------------------------ sessions on the instrumented classes
def orders():
    G, E = loader.MODS["groups"], loader.MODS["ed25519_basic"]
    return {"L": E.L, "q1024": G.I1024.q, "q2048": G.I2048.q, "q3072": G.I3072.q, "11": 11, "65537": 65537}


def klass(name):
    S = loader.MODS["spake2"]
    return {"A": S.SPAKE2_A, "B": S.SPAKE2_B, "S": S.SPAKE2_Symmetric}[name]


PEER = {"A": "B", "B": "A", "S": "S"}
SIDE_BYTE = {"A": 0x41, "B": 0x42, "S": 0x53}


def new_instance(cls, params, pw, idA, idB, ent):
    K = klass(cls)
    if cls == "S":
        return K(pw, idSymmetric=idA, params=params, entropy_f=ent)
    return K(pw, idA=idA, idB=idB, params=params, entropy_f=ent)


def restore(cls, inst, params):
    return klass(cls).from_serialized(inst.serialize(), params=params)


def sym_inputs(lens, tag=""):
    mk = lambda nm, n: SymBytes.fresh(tag + nm, n) if n <= 256 else SymBytes.fresh_chunk(tag + nm, n)
    return (mk("pw", lens[0]), mk("idA", lens[1]), mk("idB", lens[2]))


def msg_log(inst):
    """discrete log of the blinded element an instance sent (abstract group)"""
    from .core import T
    from .absgroup import norm
    return norm(inst.xy_elem.log + inst.my_blinding().log * T(inst.pw_scalar))


def abstract_params(q, tag="G", rejects_identity=False, **kw):
    P = loader.MODS["params"]
    g = AbsGroup(q, tag=tag, rejects_identity=rejects_identity)
    return P._Params(g, **kw)
