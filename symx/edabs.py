"""symx.edabs -- abstract curve points for class-level runs of the real Ed25519 element classes.

A point of E(F_Q) = Z_L x Z_8 is carried as (k, t): k its component in the order-L subgroup (as a
multiple of Base, an integer polynomial never reduced mod L) and t its torsion component mod 8.
The field kernels are replaced by their contracts (justified by C12/K4, see DESIGN.md 2.5):
  K1 add_elements(a,b)            = (a.k+b.k, a.t+b.t)
  K2 double_element(a)            = (2 a.k, 2 a.t)
  K3 _add_elements_nonunfied(a,b) = sum unless the difference has order 1,2,4 (then garbage)
  K4 scalarmult_element_safe_slow(a,n) = (n a.k, n a.t) for n >= 0
     scalarmult_element(a,n)      = (n a.k, 0) for a of order L (t = 0, L !| k) and 0 <= n < L, else garbage
  K5 is_extended_zero(a)  <=>  L | k and 8 | t ;  encodepoint(xform_extended_to_affine(a)) = ENCPT(k mod L, t mod 8),
     injective on (Z_L x Z_8).
The real Element / ElementOfUnknownGroup / _ZeroElement methods run on top, unmodified."""
import z3
from .core import Ctx, SymInt, SymBool, SymBytes, T, EngineUnsupported, _mk_bool
from .absgroup import norm, strip_mod, norm_mod

ENCPT = z3.Function("ENCPT", z3.IntSort(), z3.IntSort(), z3.IntSort())


class Coord:
    """one extended coordinate (X, Y, Z or T) of an abstract point.  The coordinates have no value in this domain; the only
    things code outside the four kernels may do with them and stay modelled are: reduce them (`% Q`, a no-op on the
    residue class) and flip their sign.  (-X, Y, Z, -T) is then recognised as the inverse point by EdAbs.lift; any other
    arithmetic on a coordinate is outside the abstract-point model (EngineUnsupported, never an exception of the code)"""
    __slots__ = ("owner", "idx", "sign")

    def __init__(self, owner, idx, sign=1):
        self.owner, self.idx, self.sign = owner, idx, sign

    def __neg__(self):
        return Coord(self.owner, self.idx, -self.sign)

    def __pos__(self):
        return self

    def __mod__(self, m):
        return self

    def _no(self, *a):
        raise EngineUnsupported("arithmetic on the coordinates of an abstract point outside the curve kernels")
    __add__ = __radd__ = __sub__ = __rsub__ = __mul__ = __rmul__ = __floordiv__ = __pow__ = __lt__ = __le__ = __gt__ = __ge__ = _no
    __int__ = __index__ = __bool__ = _no


class AbsPt(tuple):
    """a 4-tuple (so the real constructors' asserts pass) carrying (k, t)"""
    L = None
    def __new__(cls, k, t):
        # the slots are fresh objects: two abstract points never compare equal as tuples unless they are the very
        # same representation (value-equal points reached by different routes have different coordinates in general)
        cs = [Coord(None, i) for i in range(4)]
        o = tuple.__new__(cls, cs)
        for c in cs:
            c.owner = o
        o.k = norm_mod(k if z3.is_expr(k) else z3.IntVal(k), AbsPt.L) if AbsPt.L else norm(k if z3.is_expr(k) else z3.IntVal(k))
        o.t = norm(t if z3.is_expr(t) else z3.IntVal(t))
        return o


class Aff:
    def __init__(self, p):
        self.p = p


class EdAbs:
    def __init__(self, E):
        self.E = E
        self.L = E.L
        AbsPt.L = E.L
        self.const = {tuple(E.Base.XYTZ): (1, 0), tuple(E.Zero.XYTZ): (0, 0)}
        self.saved = None

    def lift(self, pt):
        if isinstance(pt, AbsPt):
            return pt
        key = tuple(pt)
        if len(key) == 4 and all(isinstance(c, Coord) for c in key):
            own = key[0].owner
            if all(c.owner is own and c.idx == i for i, c in enumerate(key)):
                signs = tuple(c.sign for c in key)              # slots are (X, Y, Z, T)
                if signs == (1, 1, 1, 1):
                    return own
                if signs == (-1, 1, 1, -1):                     # (-x, y) is the inverse of (x, y)
                    return AbsPt(-own.k, -own.t)
                if signs == (1, -1, -1, 1):                     # the same projective point as (-X, Y, Z, -T)
                    return AbsPt(-own.k, -own.t)
            raise EngineUnsupported("a tuple assembled from coordinates of abstract points outside the curve kernels")
        if key in self.const:
            k, t = self.const[key]
            return AbsPt(k, t)
        raise EngineUnsupported("concrete point without an abstract image")

    def garbage(self, why):
        c = Ctx.cur
        c.table("garbage").append(why)
        return AbsPt(c.fresh("garbage_k_" + why), c.fresh("garbage_t_" + why))

    def install(self, ctx):
        E, L = self.E, self.L
        me = self
        if enc_axioms not in ctx.axiom_providers:
            ctx.axiom_providers.append(enc_axioms)
        ctx.data["edabs"] = self

        def conc(*pts):
            """all operands are plain concrete tuples without an abstract image: use the real kernel"""
            return all(not isinstance(p, (AbsPt, Aff)) and not any(isinstance(c, Coord) for c in tuple(p))
                       and tuple(p) not in me.const for p in pts)

        def add(a, b):
            a, b = me.lift(a), me.lift(b)
            return AbsPt(a.k + b.k, a.t + b.t)

        def dbl(a):
            a = me.lift(a)
            return AbsPt(2 * a.k, 2 * a.t)

        def exponent(n):
            if isinstance(n, SymInt):
                return strip_mod(n.t, L), n.t
            return T(n), T(n)

        def slow(a, n):
            a = me.lift(a)
            if not (n >= 0):
                raise AssertionError("n >= 0")
            return AbsPt(a.k * T(n), a.t * T(n))

        def fast(a, n):
            a = me.lift(a)
            if not (n >= 0):
                raise AssertionError("n >= 0")
            unred, red = exponent(n)
            ok = SymBool(z3.And(a.t % 8 == 0, a.k % L != 0, red < L))
            if ok:
                # Euclid's lemma for the prime L (instance): L !| k and L !| n  =>  L !| k*n
                Ctx.cur.side.append(z3.Implies(red % L != 0, norm(a.k * unred) % L != 0))
                return AbsPt(a.k * unred, z3.IntVal(0))      # [n mod L]P = [n]P for P of order L
            return me.garbage("fastmul")

        def ded(a, b):
            a, b = me.lift(a), me.lift(b)
            dk, dt = a.k - b.k, a.t - b.t
            # exceptional iff the difference has order 1, 2 or 4: L | dk and dt in {0,2,4,6} mod 8
            if SymBool(z3.And(dk % L == 0, dt % 2 == 0)):
                return me.garbage("dedicated")
            return AbsPt(a.k + b.k, a.t + b.t)

        def iszero(a):
            if conc(a):
                return me.saved["is_extended_zero"](a)
            a = me.lift(a)
            return bool(SymBool(z3.And(a.k % L == 0, a.t % 8 == 0)))

        def to_aff(a):
            if conc(a):
                return me.saved["xform_extended_to_affine"](a)
            return Aff(me.lift(a))

        def encode(aff):
            if not isinstance(aff, Aff):
                return me.saved["encodepoint"](aff)
            c = Ctx.cur
            p = aff.p
            tab = c.table("edencs")
            for (k2, t2, v2) in tab:
                if k2.eq(p.k) and t2.eq(p.t):
                    return SymBytes.from_int(v2, 32)
            v = ENCPT(p.k % L, p.t % 8)
            c.side += [v >= 0, v < 2 ** 256]
            tab.append((p.k, p.t, v))
            return SymBytes.from_int(v, 32)

        def aff_to_ext(pt):
            if isinstance(pt, Aff):
                return pt.p
            return me.saved["xform_affine_to_extended"](pt)

        def arb(seed):
            """a concrete seed is hashed to a point by the real code with the real kernels (its result is an
            unrelated concrete point; only its encoding is used, e.g. in the parameter fingerprint)"""
            if not isinstance(seed, bytes):
                raise EngineUnsupported("arbitrary_element of a symbolic seed over abstract points")
            cur = {n: getattr(E, n) for n in me.saved}
            for n, f in me.saved.items():
                setattr(E, n, f)
            try:
                return me.saved["arbitrary_element"](seed)
            finally:
                for n, f in cur.items():
                    setattr(E, n, f)

        names = dict(arbitrary_element=arb, add_elements=add, double_element=dbl, scalarmult_element_safe_slow=slow,
                     scalarmult_element=fast, _add_elements_nonunfied=ded, is_extended_zero=iszero,
                     xform_extended_to_affine=to_aff, encodepoint=encode, xform_affine_to_extended=aff_to_ext)
        if self.saved is None:
            self.saved = {n: getattr(E, n) for n in names}
        for n, f in names.items():
            setattr(E, n, f)

    def uninstall(self):
        if self.saved:
            for n, f in self.saved.items():
                setattr(self.E, n, f)

    # -- values for harnesses
    def subgroup_element(self, name):
        """an arbitrary Element as the API hands it out: order exactly L"""
        c = Ctx.cur
        k = z3.Int(name)
        c.side.append(k % self.L != 0)
        return self.E.Element(AbsPt(k, z3.IntVal(0))), k

    def unknown_element(self, name):
        c = Ctx.cur
        k, t = z3.Int(name + "_k"), z3.Int(name + "_t")
        c.side.append(z3.Not(z3.And(k % self.L == 0, t % 8 == 0)))
        return self.E.ElementOfUnknownGroup(AbsPt(k, t)), (k, t)


def enc_axioms(ctx):
    me = ctx.data.get("edabs")
    if me is None:
        return []
    L = me.L
    tab = ctx.table("edencs")
    ax = []
    for i in range(len(tab)):
        for j in range(i):
            a, b = tab[i], tab[j]
            ax.append((a[2] == b[2]) == z3.And((a[0] - b[0]) % L == 0, (a[1] - b[1]) % 8 == 0))
    return ax


def same_point(L, a, b):
    """term: two abstract points are equal"""
    return z3.And(norm(a.k - b.k) % L == 0, norm(a.t - b.t) % 8 == 0)
