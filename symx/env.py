"""symx.env -- exact models of the C-level builtins the repository calls, and
uninterpreted models of SHA-256 / HKDF.  Every function falls through to the
real builtin when no proxy value is involved."""
import re, binascii, hashlib, json as _json, builtins
import z3
from .core import (Ctx, SymInt, SymBool, SymBytes, SymByteArray, SymHex, Chunk, EngineUnsupported, PathAbort, T, B,
                   sym_pow, is_sym, _mk_bool)

_real_int, _real_isinstance, _real_pow = builtins.int, builtins.isinstance, builtins.pow


# ----------------------------------------------------------------- % and join
class OddHex:
    """hex text with an odd number of digits (overflowing '%0Nx'): unhexlify raises like the real one"""
    def __init__(self, ndigits):
        self.n = ndigits

    def encode(self, enc="ascii"):
        return self

    def decode(self, enc="ascii"):
        return self

    def __len__(self):
        return self.n


_FMT = re.compile(r"%0(\d+)x")
_TOK = re.compile(r"\x00SYMHEX(\d+)\x00")


class HexToken(str):
    """a real str standing in for symbolic hex text (needed where Python demands an exact str, e.g. __format__)"""


def hex_token(h):
    c = Ctx.cur
    reg = c.data.setdefault("hex_tokens", {})
    n = len(reg) + 1
    reg[n] = h
    return HexToken("\x00SYMHEX%d\x00" % n)


def _detok(x):
    """SymHex / OddHex for a token string (or its ascii bytes); x itself otherwise"""
    if isinstance(x, (str, bytes)) and Ctx.cur is not None:
        s = x if isinstance(x, str) else x.decode("latin-1")
        m = _TOK.fullmatch(s)
        if m:
            return Ctx.cur.data.get("hex_tokens", {}).get(_real_int(m.group(1)), x)
        if "\x00SYMHEX" in s:
            parts = []
            pos = 0
            for mm in _TOK.finditer(s):
                if mm.start() > pos:
                    parts.append(s[pos:mm.start()])
                parts.append(Ctx.cur.data.get("hex_tokens", {}).get(_real_int(mm.group(1))))
                pos = mm.end()
            if pos < len(s):
                parts.append(s[pos:])
            return sym_join("", parts)
    return x


def sym_mod(a, b):
    if isinstance(a, str) and isinstance(b, (SymInt, SymBool)):
        m = _FMT.fullmatch(a)
        if not m:
            raise EngineUnsupported("format %r of a symbolic int" % a)
        nd = _real_int(m.group(1))
        b = b if isinstance(b, SymInt) else SymInt(T(b))
        if not (b >= 0):
            raise EngineUnsupported("'%x' of a negative symbolic int")
        if nd % 2:
            raise EngineUnsupported("odd field width")
        if b < 16 ** nd:
            return SymHex(SymBytes.from_int(b.t, nd // 2))
        if b < 16 ** (nd + 1):
            return OddHex(nd + 1)
        if b < 16 ** (nd + 2):
            return SymHex(SymBytes.from_int(b.t, nd // 2 + 1))
        raise EngineUnsupported("'%%0%dx' overflowing by more than two digits" % nd)
    return a % b


def sym_join(sep, xs):
    xs = [_detok(x) for x in xs]
    if any(isinstance(x, (SymBytes, SymHex, OddHex)) for x in xs):
        if len(sep) != 0:
            raise EngineUnsupported("join with a non-empty separator")
        if any(isinstance(x, OddHex) for x in xs):
            raise EngineUnsupported("join of odd-length hex")
        if isinstance(sep, str):
            acc = SymBytes([])
            for x in xs:
                h = SymHex._of(x)
                if h is None:
                    raise EngineUnsupported("join of non-hex text with symbolic hex")
                acc = acc + h.b
            return SymHex(acc)
        acc = SymBytes([])
        for x in xs:
            acc = acc + SymBytes.of(x)
        return acc
    return sep.join(xs)


# ------------------------------------------------------------ int / isinstance / pow
def sym_int(x=0, base=None):
    x = _detok(x)
    if isinstance(x, SymInt):
        return x
    if isinstance(x, SymBool):
        return SymInt(T(x))
    if isinstance(x, SymHex):
        if base != 16:
            raise EngineUnsupported("int() of hex text with base %r" % (base,))
        if len(x.b) == 0:
            raise ValueError("invalid literal for int() with base 16: ''")
        r = SymInt(z3.simplify(x.b.value()))
        from .core import Flags
        return Flags.int_lift(r) if Flags.int_lift is not None else r
    if isinstance(x, OddHex):
        raise EngineUnsupported("int() of odd hex")
    return _real_int(x) if base is None else _real_int(x, base)


def _int_from_bytes(b, byteorder="big", signed=False):
    if isinstance(b, SymBytes):
        if signed:
            raise EngineUnsupported("int.from_bytes(signed=True) of symbolic bytes")
        v = b if byteorder == "big" else b[::-1]
        r = SymInt(z3.simplify(v.value()))
        from .core import Flags
        return Flags.int_lift(r) if Flags.int_lift is not None else r
    return _real_int.from_bytes(b, byteorder, signed=signed)


sym_int.from_bytes = _int_from_bytes


def sym_isinstance(o, c):
    cs = c if _real_isinstance(c, tuple) else (c,)
    cs = tuple(_real_int if x is sym_int else (bytes if x is sym_bytes else x) for x in cs)
    if _real_isinstance(o, SymInt) and _real_int in cs:
        return True
    if _real_isinstance(o, SymBool) and (bool in cs or _real_int in cs):
        return True
    if _real_isinstance(o, SymBytes) and bytes in cs:
        return True
    if _real_isinstance(o, (SymHex, OddHex)) and (str in cs or bytes in cs):
        return True
    return _real_isinstance(o, cs)


def sym_hexlify(b):
    if isinstance(b, SymBytes):
        if b.is_concrete():
            return binascii.hexlify(b.concrete())
        return SymHex(b)
    return binascii.hexlify(b)


def sym_unhexlify(h):
    h = _detok(h)
    if isinstance(h, SymHex):
        return h.b
    if isinstance(h, OddHex):
        raise binascii.Error("Odd-length string")
    return binascii.unhexlify(h)


class _BinShim:
    hexlify = staticmethod(sym_hexlify)
    unhexlify = staticmethod(sym_unhexlify)
    Error = binascii.Error


# ----------------------------------------------------------------------- SHA-256
def _sha_fn(n):
    return z3.Function("SHA256_%d" % n, z3.IntSort(), z3.IntSort())


def sha_term(b):
    """digest (as SymBytes) of a byte string; uninterpreted per input length; concrete inputs use hashlib"""
    c = Ctx.cur
    b = SymBytes.of(b)
    n = len(b)
    tab = c.table("hashes")
    if b.is_concrete():
        raw = b.concrete()
        dg = hashlib.sha256(raw).digest()
        arg = z3.IntVal(_real_int.from_bytes(raw, "big"))
        d = z3.IntVal(_real_int.from_bytes(dg, "big"))
        if not any(e[3] == raw for e in tab if e[3] is not None):
            c.side.append(_sha_fn(n)(arg) == d)
            tab.append((n, b, d, raw))
        return SymBytes(list(dg))
    d = _sha_fn(n)(z3.simplify(b.value()))
    for e in tab:
        if e[3] is None and e[0] == n and e[2].eq(d):
            return SymBytes.from_int(d, 32)
    c.side += [d >= 0, d < 2 ** 256]
    tab.append((n, b, d, None))
    return SymBytes.from_int(d, 32)


class ShaObj:
    def __init__(self, data=b""):
        self._d = data

    def update(self, more):
        self._d = self._d + more

    def digest(self):
        return sha_term(self._d)

    def hexdigest(self):
        d = sha_term(self._d)
        if d.is_concrete():
            return binascii.hexlify(d.concrete()).decode("ascii")
        return SymHex(d)


def sym_sha256(data=b""):
    if isinstance(data, (bytes, bytearray)):
        if Ctx.cur is not None and Ctx.cur.data.get("record_concrete_hashes", True):
            sha_term(SymBytes.of(bytes(data)))      # ground fact SHA256_n(arg) = digest, joins the collision table
        return hashlib.sha256(data)
    return ShaObj(data)


class _HashlibShim:
    sha256 = staticmethod(sym_sha256)


def no_collision_axioms(ctx):
    """'no two distinct inputs among the hash applications of this query collide'"""
    ax = []
    tab = ctx.table("hashes")
    for i in range(len(tab)):
        for j in range(i):
            (n1, b1, d1, _), (n2, b2, d2, _) = tab[i], tab[j]
            if z3.is_int_value(d1) and z3.is_int_value(d2):
                continue
            same = b1.eq_term(b2) if n1 == n2 else z3.BoolVal(False)
            ax.append(z3.Implies(d1 == d2, same))
    return ax


# -------------------------------------------------------------------------- HKDF
class HkdfStub:
    """records its construction arguments; derive() of a symbolic input is uninterpreted"""
    def __init__(self, algorithm=None, length=None, salt=None, info=None, backend=None):
        self.algorithm, self.length, self.salt, self.info = algorithm, length, salt, info

    def derive(self, data):
        c = Ctx.cur
        algname = type(self.algorithm).__name__
        rec = dict(algorithm=algname, length=self.length, salt=self.salt, info=self.info)
        if isinstance(data, (bytes, bytearray)):
            from cryptography.hazmat.primitives.kdf import hkdf as _h
            out = _h.HKDF(algorithm=self.algorithm, length=self.length, salt=self.salt, info=self.info).derive(data)
            if c is not None:
                rec.update(data=bytes(data), datalen=len(data), out=out)
                c.table("hkdf").append(rec)
            return out
        if is_sym(self.length) or is_sym(self.salt) or is_sym(self.info):
            raise EngineUnsupported("HKDF with symbolic parameters")
        data = SymBytes.of(data)
        tag = "HKDF_%s_%d_%s_%s_%d" % (algname, self.length, binascii.hexlify(self.salt or b"").decode(),
                                       binascii.hexlify(self.info or b"").decode(), len(data))
        f = z3.Function(tag, z3.IntSort(), z3.IntSort())
        v = f(z3.simplify(data.value()))
        c.side += [v >= 0, v < 256 ** self.length]
        out = SymBytes.from_int(v, self.length)
        rec.update(data=data, datalen=len(data), out=out, term=v)
        c.table("hkdf").append(rec)
        return out


class _HkdfShim:
    HKDF = HkdfStub


# -------------------------------------------------------------------------- JSON
class JsonBlob:
    """what json.dumps returns when the dictionary holds symbolic text: an opaque value that
    encode/decode pass through and json.loads turns back into an equal dictionary"""
    def __init__(self, obj):
        self.obj = dict(obj)

    def encode(self, enc="ascii"):
        if enc not in ("ascii", "utf-8", "utf8"):
            raise EngineUnsupported("encoding %r" % enc)
        return self

    def decode(self, enc="ascii"):
        return self

    def __len__(self):
        """length of the text json.dumps would produce with default separators (all lengths are concrete)"""
        n = 2
        for i, (k, v) in enumerate(self.obj.items()):
            n += (2 if i else 0) + len(k) + 2 + 2 + len(v) + 2
        return n


class _JsonShim:
    @staticmethod
    def dumps(obj, *a, **k):
        if isinstance(obj, dict) and any(is_sym(v) for v in obj.values()):
            for key, v in obj.items():
                if not isinstance(key, str):
                    raise TypeError("keys must be str")
                if not isinstance(v, (str, SymHex)):
                    raise EngineUnsupported("json.dumps of %r" % type(v).__name__)
            return JsonBlob(obj)
        return _json.dumps(obj, *a, **k)

    @staticmethod
    def loads(s, *a, **k):
        if isinstance(s, JsonBlob):
            return dict(s.obj)
        return _json.loads(s, *a, **k)

    JSONDecodeError = _json.JSONDecodeError


class _OsShim:
    """os.urandom inside the library: recorded (the harness always supplies entropy_f, so any call is a finding) and
    answered with fresh symbolic bytes"""
    def __getattr__(self, name):
        import os as _os
        return getattr(_os, name)

    @staticmethod
    def urandom(n):
        c = Ctx.cur
        if c is None:
            import os as _os
            return _os.urandom(n)
        c.table("urandom").append(n)
        return SymBytes.fresh_chunk("urandom_%d" % len(c.table("urandom")), n)


class _OperatorShim:
    """operator.index() is the identity on integer proxies (it is used as a type guard before int.to_bytes)"""
    def __getattr__(self, name):
        import operator as _op
        return getattr(_op, name)

    @staticmethod
    def index(x):
        import operator as _op
        if isinstance(x, SymInt):
            return x
        if isinstance(x, SymBool):
            return SymInt(T(x))
        return _op.index(x)


class _BytesMeta(type):
    def __instancecheck__(cls, o):
        return isinstance(o, (bytes, SymBytes))


class _ByteArrayMeta(type):
    def __instancecheck__(cls, o):
        return isinstance(o, (bytearray, SymByteArray))


class sym_bytearray(metaclass=_ByteArrayMeta):
    """`bytearray` as the library sees it: a real bytearray for concrete arguments, SymByteArray when a proxy is involved"""
    def __new__(cls, *a, **k):
        if a and isinstance(a[0], (SymBytes, SymByteArray)):
            return SymByteArray(SymBytes.of(a[0]).items())
        if a and isinstance(a[0], (list, tuple)) and any(isinstance(x, SymInt) for x in a[0]):
            out = SymByteArray([])
            out.extend(a[0])
            return out
        if a and isinstance(a[0], SymInt):
            raise EngineUnsupported("bytearray(n) with a symbolic length")
        return bytearray(*a, **k)

    @staticmethod
    def fromhex(h):
        r = sym_bytes.fromhex(h)
        return sym_bytearray(r)


class sym_bytes(metaclass=_BytesMeta):
    """`bytes` as the library sees it: real bytes for concrete arguments, SymBytes when a proxy is involved"""
    def __new__(cls, *a, **k):
        if a and isinstance(a[0], SymBytes):
            return a[0]
        if a and isinstance(a[0], SymByteArray):
            return SymBytes.of(a[0])
        if a and isinstance(a[0], (list, tuple)) and any(isinstance(x, SymInt) for x in a[0]):
            return SymBytes([x.t if isinstance(x, SymInt) else x for x in a[0]])
        if a and isinstance(a[0], SymInt):
            raise EngineUnsupported("bytes(n) with a symbolic length")
        return bytes(*a, **k)

    @staticmethod
    def fromhex(h):
        h = _detok(h)
        if isinstance(h, SymHex):
            return h.b
        if isinstance(h, OddHex):
            raise ValueError("non-hexadecimal number found in fromhex() arg")
        return bytes.fromhex(h)


def _identity_map():
    import operator, os as _os, math
    m = {id(operator.index): _OperatorShim.index, id(binascii.hexlify): sym_hexlify, id(binascii.unhexlify): sym_unhexlify,
         id(binascii.b2a_hex): sym_hexlify, id(binascii.a2b_hex): sym_unhexlify, id(hashlib.sha256): sym_sha256,
         id(_os.urandom): _OsShim.urandom, id(_json.dumps): _JsonShim.dumps, id(_json.loads): _JsonShim.loads,
         id(binascii): _BinShim, id(hashlib): _HashlibShim, id(_json): _JsonShim, id(_os): _OsShim(), id(operator): _OperatorShim(),
         id(_real_int): sym_int, id(_real_isinstance): sym_isinstance, id(_real_pow): sym_pow, id(bytes): sym_bytes}
    try:
        from cryptography.hazmat.primitives.kdf import hkdf as _h
        m[id(_h)] = _HkdfShim
        m[id(_h.HKDF)] = HkdfStub
    except Exception:
        pass
    return m


def instrument(mod):
    # identity-based rebinding: whatever NAME the module gave a C-level helper (`from operator import index as _index`,
    # `import binascii as ba`, ...), the proxy-aware model replaces it
    idm = _identity_map()
    for name, val in list(vars(mod).items()):
        if name.startswith("__"):
            continue
        try:
            if id(val) in idm:
                setattr(mod, name, idm[id(val)])
        except Exception:
            pass
    mod.bytes = sym_bytes
    mod.bytearray = sym_bytearray
    mod.__sym_mod__ = sym_mod
    mod.__sym_join__ = sym_join
    mod.int = sym_int
    mod.isinstance = sym_isinstance
    mod.pow = sym_pow
    if hasattr(mod, "binascii"):
        mod.binascii = _BinShim
    if hasattr(mod, "hexlify"):
        mod.hexlify = sym_hexlify
    if hasattr(mod, "unhexlify"):
        mod.unhexlify = sym_unhexlify
    if hasattr(mod, "sha256"):
        mod.sha256 = sym_sha256
    if hasattr(mod, "hashlib"):
        mod.hashlib = _HashlibShim
    if hasattr(mod, "hkdf"):
        mod.hkdf = _HkdfShim
    if hasattr(mod, "json"):
        mod.json = _JsonShim
    if hasattr(mod, "os"):
        mod.os = _OsShim()
    if hasattr(mod, "operator"):
        mod.operator = _OperatorShim()
