"""symx.harness -- obligation bookkeeping, parallel job runner, replay, known findings, evidence."""
import re
import json, os, sys, time, subprocess, traceback, multiprocessing, hashlib
import z3
from . import core, loader
from .core import Ctx, explore, EngineUnsupported, PathAbort, B, T, SymBytes, SymInt, SymBool

VERIF = os.path.dirname(os.path.dirname(os.path.abspath(__file__)))
PY = sys.executable


# ------------------------------------------------------------------ json helpers
def enc(o):
    if isinstance(o, (bytes, bytearray)):
        return {"__bytes__": bytes(o).hex()}
    if isinstance(o, dict):
        return {str(k): enc(v) for k, v in o.items()}
    if isinstance(o, (list, tuple)):
        return [enc(v) for v in o]
    if isinstance(o, bool) or o is None or isinstance(o, (str, float)):
        return o
    if isinstance(o, int):
        return o if abs(o) < 2 ** 53 else {"__int__": str(o)}
    return repr(o)


def dec(o):
    if isinstance(o, dict):
        if set(o) == {"__bytes__"}:
            return bytes.fromhex(o["__bytes__"])
        if set(o) == {"__int__"}:
            return int(o["__int__"])
        return {k: dec(v) for k, v in o.items()}
    if isinstance(o, list):
        return [dec(v) for v in o]
    return o


def short(t, n=160):
    s = str(t).replace("\n", " ")
    s = " ".join(s.split())
    return s if len(s) <= n else s[:n] + "..."


# ------------------------------------------------------------------------ job API
JOB_DEADLINE = {"quick": int(os.environ.get("VERIF_JOB_DEADLINE", "420")), "thorough": int(os.environ.get("VERIF_JOB_DEADLINE", "2400"))}
_STREAM = None      # connection to the parent: partial results survive a worker that has to be killed


class _StreamList(list):
    def __init__(self, kind):
        list.__init__(self)
        self.kind = kind

    def append(self, rec):
        list.append(self, rec)
        if _STREAM is not None:
            try:
                _STREAM.send((self.kind, rec))
            except Exception:
                pass


class Job:
    """collects what one harness run established; lives in a worker process"""

    def __init__(self, name, tier):
        self.name, self.tier = name, tier
        self.obligations = _StreamList("ob")     # dicts: name, verdict, secs
        self.candidates = _StreamList("cand")    # dicts: oracle, args, why
        self.samples = []
        self.selftest = []
        self.stats = dict(paths=0, infeasible=0, truncated=0, unsupported=0, queries=0, solver_s=0.0,
                          reachable_paths=0, vacuous_paths=0)
        self.notes = []
        self.bounds = {}
        self.assumptions = set()
        self.timeout_ms = 30000 if tier == "quick" else 120000
        self.unknowns = 0
        self.t_start = time.time()
        self.deadline_s = JOB_DEADLINE[tier]

    # -- exploration
    def explore(self, fn, max_paths=400, label=None, fallback=None):
        """fallback=(oracle, args): what to replay when a path uses a construct the engine cannot model"""
        fallback = fallback or getattr(self, "default_fallback", None)
        res, st = explore(fn, max_paths=max_paths)
        for k in ("paths", "infeasible", "truncated", "unsupported", "queries", "solver_s"):
            self.stats[k] += st[k]
        if st.get("capped") or st.get("leftover"):
            # paths cut by the engine's own caps (not by a bound the job states): never silently dropped
            why = "%s: exploration completed within the engine caps (%d paths hit the depth cap, %d prefixes left over at max_paths)" % (
                label or self.name, st.get("capped", 0), st.get("leftover", 0))
            self.obligations.append(dict(name=why, verdict="unknown", secs=0.0))
            if fallback is not None:
                self.candidates.append(dict(oracle=fallback[0], args=enc(fallback[1]), why=why))
        if not res:
            self.obligations.append(dict(name="%s: at least one path runs to completion (%d cut, %d infeasible)" % (
                label or self.name, st.get("truncated", 0), st.get("infeasible", 0)), verdict="unknown", secs=0.0))
        for r in res:
            if r.kind == "unsupported":
                self.notes.append("unsupported construct on a path of %s: %s" % (label or self.name, r.value))
                why = "%s: engine supports the path" % (label or self.name)
                self.obligations.append(dict(name=why, verdict="unknown", secs=0.0))
                if fallback is not None:
                    self.candidates.append(dict(oracle=fallback[0], args=enc(fallback[1]), why=why))
        return [r for r in res if r.kind != "unsupported"]

    def reach(self, r, label=""):
        """reachability twin: the path condition with all axioms must be satisfiable"""
        ctx = r.ctx
        Ctx.cur = ctx
        v, m, _ = ctx.solve(timeout_ms=20000)
        self._absorb(ctx)
        if v == "unsat":
            self.stats["vacuous_paths"] += 1
            return None
        self.stats["reachable_paths"] += 1
        return m if v == "sat" else True

    def _absorb(self, ctx):
        self.stats["queries"] += ctx.queries
        self.stats["solver_s"] += ctx.solver_s
        ctx.queries = 0
        ctx.solver_s = 0.0

    # -- obligations
    def claim(self, r, name, term, cex=None, oracle=None, extra=(), sample=None, soft=False):
        """prove  pc & side & axioms |= term  on path r.  cex(model) -> oracle args for replay.
        soft=True: the assertion is stricter than the property statement (a heuristic tripwire); if it fails its candidate
        is replayed like any other, but when nothing reproduces it is only noted, not counted as undecided."""
        ctx = r.ctx if hasattr(r, "ctx") else r
        Ctx.cur = ctx
        t0 = time.time()
        try:
            if isinstance(term, bool):
                verdict, model = ("unsat", None) if term else ("sat-concrete", None)
                if not term:
                    v, model, _ = ctx.solve(*extra, timeout_ms=self.timeout_ms)
                    verdict = {"sat": "sat", "unsat": "unsat"}.get(v, "unknown")
            else:
                fast = self.unknowns >= 2 or (time.time() - self.t_start) > 0.6 * self.deadline_s   # budget
                verdict, model, _ = ctx.prove(term, timeout_ms=4000 if fast else self.timeout_ms, extra=extra,
                                              retry=not fast)
                if verdict == "unknown":
                    self.unknowns += 1
                    model = ctx.refute_with_hints(term, extra=extra)
                    hinted = True
        except z3.Z3Exception as e:
            verdict, model = "unknown", None
            self.notes.append("z3 exception on %s: %s" % (name, e))
        secs = round(time.time() - t0, 3)
        self._absorb(ctx)
        rec = dict(name=name, verdict=verdict, secs=secs)
        if soft:
            rec["soft"] = True
        if isinstance(term, bool):
            if term:
                rec["trivial"] = True      # a concrete outcome of a symbolic path (no solver query needed)
        elif z3.is_true(z3.simplify(term)):
            rec["by"] = "term normalisation"   # both sides are the same term after z3's simplifier (congruence)
        self.obligations.append(rec)
        if (verdict == "sat" or verdict == "unknown") and cex is not None:
            try:
                args = cex(model)
                if args is not None:
                    self.candidates.append(dict(oracle=oracle or self.name, args=enc(args), why=name))
            except Exception as e:      # concretisation failed: stays an undischarged obligation
                self.notes.append("concretisation failed for %s: %r" % (name, e))
        if os.environ.get("VERIF_ORACLE_SELFTEST") and verdict == "unsat" and cex is not None and \
                sum(1 for c in self.selftest if c["oracle"] == (oracle or self.name)) < 2:
            # development aid (tools/oracle_selftest.sh): replay oracles normally run only after a failed obligation, so a
            # bug in one stays latent; here a model of a path whose obligation HOLDS is pushed through the same oracle,
            # which must then report "not violated" on the unchanged tree
            try:
                v_, m_, _s = ctx.solve(timeout_ms=5000)
                if v_ == "sat":
                    a_ = cex(m_)
                    if a_ is not None:
                        self.selftest.append(dict(oracle=oracle or self.name, args=enc(a_), why=name))
            except Exception as e:
                self.notes.append("selftest concretisation failed for %s: %r" % (name, e))
        if len(self.samples) < 4 and sample is not False:
            self.samples.append(dict(obligation=name, path_condition=[short(c) for c in ctx.pc[:6]],
                                     claim=short(term, 240) if not isinstance(term, bool) else str(term),
                                     verdict=verdict, secs=secs, **(sample or {})))
        return verdict

    def concrete_violation(self, oracle, args, why):
        """an outcome that is wrong without any solver model (e.g. a concrete False)"""
        self.obligations.append(dict(name=why, verdict="sat", secs=0.0))
        self.candidates.append(dict(oracle=oracle, args=enc(args), why=why))

    def ground(self, name, ok, detail=None, oracle=None, args=None):
        """ground obligation: a closed fact computed through the real code (no variables)"""
        self.obligations.append(dict(name=name, verdict="unsat" if ok else "sat", secs=0.0, ground=True))
        if not ok and oracle:
            self.candidates.append(dict(oracle=oracle, args=enc(args or {}), why=name))
        elif not ok:
            self.notes.append("ground fact failed without oracle: %s %s" % (name, detail))

    def result(self):
        self.stats["solver_s"] = round(self.stats["solver_s"], 3)
        X = Ctx.XCHECK
        self.stats.update(cvc5_rechecked_unsat=X["unsat"], cvc5_unknown=X["unknown"], cvc5_disagree=X["disagree"],
                          cvc5_s=round(X["secs"], 2))
        return dict(job=self.name, obligations=self.obligations, candidates=self.candidates, samples=self.samples, selftest=self.selftest,
                    stats=self.stats, notes=self.notes, bounds=self.bounds, assumptions=sorted(self.assumptions),
                    functions=sorted(loader.ENTERED))


def _run_job(spec):
    modname, fname, kwargs, tier = spec
    t0 = time.time()
    mod = sys.modules[modname]
    J = Job(kwargs.pop("_name", fname), tier)
    loader.ENTERED.clear()
    import signal

    def _alarm(signum, frame):
        raise TimeoutError("job exceeded 90%% of its wall-clock deadline in Python code")
    try:
        signal.signal(signal.SIGALRM, _alarm)
        signal.setitimer(signal.ITIMER_REAL, 0.9 * J.deadline_s)
    except Exception:
        pass
    try:
        getattr(mod, fname)(J, **kwargs)
    except EngineUnsupported as e:
        J.notes.append("EngineUnsupported outside a path: %s" % e)
        J.obligations.append(dict(name="harness ran", verdict="unknown", secs=0.0))
        fb = getattr(J, "default_fallback", None)
        if fb:
            J.candidates.append(dict(oracle=fb[0], args=enc(fb[1]), why="harness ran"))
    except Exception as e:
        J.notes.append("harness error: " + traceback.format_exc()[-1500:])
        J.obligations.append(dict(name="harness ran", verdict="error", secs=0.0))
        fb = getattr(J, "default_fallback", None)
        if fb:
            J.candidates.append(dict(oracle=fb[0], args=enc(fb[1]), why="harness ran"))
    try:
        signal.setitimer(signal.ITIMER_REAL, 0)
    except Exception:
        pass
    if J.stats.get("vacuous_paths", 0) and not J.stats.get("reachable_paths", 0):
        # reachability twin: every path the job looked at is contradictory under the full axiom set -- its claims would
        # all pass vacuously
        J.obligations.append(dict(name="reachability twin: at least one explored path is satisfiable together with all axioms "
                                       "(%d checked, all contradictory)" % J.stats["vacuous_paths"], verdict="unknown", secs=0.0))
    if not J.obligations:
        # vacuity guard: a job that explored paths but stated nothing about them (every path cut, or no path of the shape
        # its claims are attached to) must not read as "held"
        J.obligations.append(dict(name="the job reaches at least one of its assertions (%d paths, %d cut)" % (
            J.stats.get("paths", 0), J.stats.get("truncated", 0)), verdict="unknown", secs=0.0))
    out = J.result()
    out["wall_s"] = round(time.time() - t0, 2)
    return out


def _worker(spec, conn):
    global _STREAM
    _STREAM = conn
    try:
        out = _run_job(spec)
        conn.send(("done", out))
    except BaseException as e:
        try:
            conn.send(("done", dict(job=spec[2].get("_name", spec[1]), obligations=[dict(name="harness ran", verdict="error", secs=0.0)],
                                    candidates=[], samples=[], stats={}, notes=["worker crashed: %r" % (e,)], bounds={},
                                    assumptions=[], functions=[], wall_s=0.0)))
        except Exception:
            pass
    finally:
        conn.close()


def _schedule(specs, nproc, deadline_s):
    """run every job in its own forked process, at most nproc at a time, each under a wall-clock deadline;
    a job that has to be killed keeps the obligations it streamed and gets one 'unknown' obligation"""
    if nproc == 1 and not os.environ.get("VERIF_FORCE_FORK"):
        return [_run_job(s) for s in specs]
    ctxm = multiprocessing.get_context("fork")
    pending = list(enumerate(specs))
    running = {}
    results = []
    while pending or running:
        while pending and len(running) < nproc:
            i, spec = pending.pop(0)
            parent, child = ctxm.Pipe(duplex=False)
            p = ctxm.Process(target=_worker, args=(spec, child), daemon=True)
            p.start()
            child.close()
            running[i] = dict(p=p, conn=parent, t0=time.time(), spec=spec, obs=[], cands=[], done=None)
        time.sleep(0.02)
        for i in list(running):
            st = running[i]
            try:
                while st["conn"].poll():
                    kind, rec = st["conn"].recv()
                    if kind == "ob":
                        st["obs"].append(rec)
                    elif kind == "cand":
                        st["cands"].append(rec)
                    elif kind == "done":
                        st["done"] = rec
            except (EOFError, OSError):
                if st["done"] is None and not st["p"].is_alive():
                    st["done"] = "crashed"
            name = st["spec"][2].get("_name", st["spec"][1])
            if st["done"] is not None and st["done"] != "crashed":
                results.append(st["done"])
            elif st["done"] == "crashed" or time.time() - st["t0"] > deadline_s:
                why = "worker died" if st["done"] == "crashed" else "job exceeded its %ds wall-clock deadline and was stopped" % deadline_s
                if st["p"].is_alive():
                    st["p"].kill()
                results.append(dict(job=name, obligations=st["obs"] + [dict(name="job completes (%s)" % why, verdict="unknown", secs=0.0)],
                                    candidates=st["cands"], samples=[], stats={}, notes=[name + ": " + why], bounds={},
                                    assumptions=[], functions=[], wall_s=round(time.time() - st["t0"], 1)))
            else:
                continue
            st["p"].join(timeout=1)
            st["conn"].close()
            del running[i]
    return results


# --------------------------------------------------------------------- replay
def run_oracle(check_mod, oracle, args, timeout=600):
    """execute a concrete oracle of the check module against the plain spake2 package in a fresh interpreter"""
    payload = json.dumps(dict(module=check_mod, oracle=oracle, args=args))
    p = subprocess.run([PY, "-m", "symx.replay"], input=payload, capture_output=True, text=True, cwd=VERIF,
                       timeout=timeout, env=dict(os.environ, PYTHONPATH=VERIF + os.pathsep + os.path.join(loader.TREE, "src")))
    try:
        return json.loads(p.stdout.strip().splitlines()[-1])
    except Exception:
        return dict(violated=None, detail="oracle crashed: " + (p.stderr or p.stdout)[-800:])


def _oracle_selftest(mod, pid, results):
    """tools/oracle_selftest.sh: every replay oracle, fed with models of paths on which the obligations hold, must say
    "not violated" on the unchanged tree (known findings excepted)"""
    from concurrent.futures import ThreadPoolExecutor
    per, seen, todo = {}, set(), []
    for r in results:
        for c in r.get("selftest", []):
            k = json.dumps([c["oracle"], c["args"]], sort_keys=True)
            if k in seen or per.get(c["oracle"], 0) >= 8:
                continue
            seen.add(k)
            per[c["oracle"]] = per.get(c["oracle"], 0) + 1
            todo.append(dict(c, job=r["job"]))
    known = load_known(pid)
    bad = 0
    with ThreadPoolExecutor(8) as ex:
        outs = list(ex.map(lambda c: run_oracle(mod.__name__, c["oracle"], c["args"]), todo))
    for c, o in zip(todo, outs):
        v = o.get("violated")
        kf = v and any(k.get("oracle") in (None, c["oracle"]) and k.get("class") == o.get("class") for k in known)
        tag = "ok" if v is False else ("known-finding" if kf else ("CRASH" if v is None else "FAIL"))
        if tag in ("FAIL", "CRASH"):
            bad += 1
            print("ORACLE-SELFTEST %s %s oracle=%s job=%s why=%s :: %s" % (tag, pid, c["oracle"], c["job"], c["why"][:80], str(o.get("detail"))[:300]))
    print("ORACLE-SELFTEST %s: %d candidates over %d oracles, %d problems" % (pid, len(todo), len(per), bad))
    return 0 if not bad else 3


def load_known(pid):
    path = os.path.join(VERIF, "known_findings.json")
    if not os.path.exists(path):
        return []
    return [e for e in json.load(open(path)).get("findings", []) if e.get("property") == pid and e.get("status") == "known"]


# ------------------------------------------------------------------------ main
def main(check_module, argv=None):
    """entry point of every checks/cNN.py"""
    mod = sys.modules[check_module] if isinstance(check_module, str) else check_module
    pid = mod.PID
    argv = sys.argv[1:] if argv is None else argv
    tier = (argv[0] if argv else None) or os.environ.get("VERIF_TIER") or "quick"      # an explicit argument wins
    tier = "thorough" if tier == "thorough" else "quick"
    seed = core.SEED
    t0 = time.time()
    try:
        loader.load()
    except BaseException as e:
        print("%s %s: cannot import /repo/src/spake2 (%s: %s) -> inconclusive" % (pid, tier, type(e).__name__, e))
        return 2
    specs = []
    only = os.environ.get("VERIF_ONLY")          # debugging aid: run the jobs whose name matches; never used by MANIFEST commands
    for (fname, kwargs) in mod.jobs(tier):
        kw = dict(kwargs)
        if only and not re.search(only, kw.get("_name", fname)):
            continue
        specs.append((mod.__name__, fname, kw, tier))
    if only:
        os.environ.setdefault("VERIF_EVIDENCE_DIR", "/tmp/verif_only_evidence")
    nproc = int(os.environ.get("VERIF_JOBS", "0") or 0) or min(16, max(1, len(specs)))
    results = _schedule(specs, nproc, JOB_DEADLINE[tier])
    results.sort(key=lambda r: r["job"])

    if os.environ.get("VERIF_ORACLE_SELFTEST"):
        return _oracle_selftest(mod, pid, results)

    # ---- aggregate
    obligations = [dict(o, job=r["job"]) for r in results for o in r["obligations"]]
    n_ob = len(obligations)
    n_ok = sum(1 for o in obligations if o["verdict"] == "unsat")
    undecided = [o for o in obligations if o["verdict"] in ("unknown", "error")]
    failed = [o for o in obligations if o["verdict"] in ("sat", "sat-concrete")]
    cands, seen = [], set()
    for r in results:
        for c in r["candidates"]:
            k = json.dumps([c["oracle"], c["args"]], sort_keys=True)
            if k not in seen:
                seen.add(k)
                cands.append(dict(c, job=r["job"]))

    # ---- replay candidates on the real package: per failed obligation (job, name) until one reproduces
    known = load_known(pid)
    violations, known_hits, unreproduced = [], [], []
    by_key = {}
    for c in cands:
        by_key.setdefault((c["job"], c["why"]), []).append(c)
    explained_keys = set()
    replayed = 0
    for key, cs in by_key.items():
        if len(violations) >= 8:
            break
        for c in cs[:4]:
            res = run_oracle(mod.__name__, c["oracle"], c["args"])
            replayed += 1
            c["replay"] = res
            if res.get("violated") is True:
                tag = res.get("class") or ""
                hit = next((k for k in known if k.get("oracle") == c["oracle"] and k.get("class") == tag and tag), None)
                if hit:
                    known_hits.append((hit, c))
                else:
                    violations.append(c)
                explained_keys.add(key)
                break
            unreproduced.append(c)

    os.makedirs(os.path.join(VERIF, "replays"), exist_ok=True)
    evdir = os.environ.get("VERIF_EVIDENCE_DIR") or os.path.join(VERIF, "evidence")
    os.makedirs(evdir, exist_ok=True)
    printed = set()
    for hit, c in known_hits:
        if hit["id"] not in printed:
            printed.add(hit["id"])
            print("KNOWN-FINDING: property=%s %s (%s)" % (pid, hit["what"], hit["id"]))
    vio_paths = []
    for i, c in enumerate(violations):
        h = hashlib.sha256(json.dumps([c["oracle"], c["args"]], sort_keys=True).encode()).hexdigest()[:10]
        path = os.path.join(VERIF, "replays", "%s-%s.json" % (pid, h))
        json.dump(dict(property=pid, module=mod.__name__, oracle=c["oracle"], args=c["args"], why=c["why"],
                       observed=c["replay"]), open(path, "w"), indent=1)
        vio_paths.append(path)
        print("VIOLATION property=%s replay=%s" % (pid, path))
        print("  what: %s -- %s" % (c["why"], short(c["replay"].get("detail"), 300)))

    # an undischarged obligation whose candidate did not reproduce (or has none) is inconclusive
    soft_unreproduced = [o for o in failed + undecided if o.get("soft") and (o["job"], o["name"]) not in explained_keys]
    failed = [o for o in failed if not (o.get("soft") and (o["job"], o["name"]) not in explained_keys)]
    undecided = [o for o in undecided if not o.get("soft")]
    unexplained = [o for o in failed if (o["job"], o["name"]) not in explained_keys]
    # an undecided obligation whose candidate reproduced (a violation, or a listed known finding) is accounted for
    undecided = [o for o in undecided if (o["job"], o["name"]) not in explained_keys]
    if len(violations) >= 8:
        unexplained = []
    inconclusive = bool(undecided) or bool(unexplained)
    status = 1 if violations else (2 if inconclusive else 0)

    stats = {}
    for r in results:
        for k, v in r["stats"].items():
            stats[k] = round(stats.get(k, 0) + v, 3)
    functions = sorted({f for r in results for f in r["functions"]})
    samples = [dict(s, job=r["job"]) for r in results for s in r["samples"][:2]][:12]
    bounds = {r["job"]: r["bounds"] for r in results if r["bounds"]}
    assumptions = sorted({a for r in results for a in r["assumptions"]} | set(getattr(mod, "ASSUMPTIONS", [])))
    notes = [n for r in results for n in r["notes"]]
    nontrivial = len({(o["job"], o["name"]) for o in obligations
                      if o["verdict"] == "unsat" and not o.get("trivial")})
    ev = dict(
        property_id=pid, tier=tier, seed=seed, level="other",
        coverage=dict(
            explanation=mod.EXPLANATION,
            obligations=n_ob, discharged=n_ok,
            evaluations=n_ob, distinct_nontrivial=nontrivial,
            rule="an obligation is one (path, assertion) pair decided over all values of the symbolic inputs on that path "
                 "(z3 check, or z3's simplifier when both sides normalise to the same term); distinct = distinct (job, "
                 "obligation name); non-trivial = discharged (unsat) and not a mere concrete outcome flag of the path",
            decided_by_normalisation=sum(1 for o in obligations if o.get("by")),
            undischarged=[dict(job=o["job"], name=o["name"], verdict=o["verdict"]) for o in failed + undecided][:30],
            paths=int(stats.get("paths", 0)), reachable_paths=int(stats.get("reachable_paths", 0)),
            truncated_paths=int(stats.get("truncated", 0)), infeasible_prefixes=int(stats.get("infeasible", 0)),
            vacuous_paths=int(stats.get("vacuous_paths", 0)),
            queries=int(stats.get("queries", 0)), solver_s=stats.get("solver_s", 0.0),
            cvc5_crosscheck=dict(rechecked_unsat=int(stats.get("cvc5_rechecked_unsat", 0)), unknown=int(stats.get("cvc5_unknown", 0)),
                                 disagree=int(stats.get("cvc5_disagree", 0)), secs=stats.get("cvc5_s", 0.0)),
            functions_encoded=functions, bounds=bounds,
            jobs=[dict(job=r["job"], wall_s=r["wall_s"], obligations=len(r["obligations"]),
                       discharged=sum(1 for o in r["obligations"] if o["verdict"] == "unsat")) for r in results],
            candidates_replayed=replayed, replays_reproduced=len(violations) + len(known_hits),
            known_findings_seen=sorted(printed), unreproduced_candidates=[c["why"] for c in unreproduced][:10],
            unexplained_failed_obligations=[dict(job=o["job"], name=o["name"]) for o in unexplained][:20],
            soft_tripwires_not_reproduced=[dict(job=o["job"], name=o["name"]) for o in soft_unreproduced][:20],
            solver="z3 %s" % z3.get_version_string(), source_digest=loader.source_digest(),
            samples=samples, notes=notes[:20],
            trusted_base=getattr(mod, "TRUSTED", []),
        ),
        assumptions=assumptions,
        wall_s=round(time.time() - t0, 2),
        violations=len(violations),
        status={0: "held", 1: "violation", 2: "inconclusive"}[status],
    )
    json.dump(ev, open(os.path.join(evdir, "%s.json" % pid), "w"), indent=1)
    print("%s %s: %d/%d obligations discharged, %d paths, %d queries, solver %.1fs, wall %.1fs -> %s" % (
        pid, tier, n_ok, n_ob, stats.get("paths", 0), stats.get("queries", 0), stats.get("solver_s", 0.0),
        time.time() - t0, ev["status"]))
    if status == 2:
        for o in (unexplained + undecided)[:10]:
            print("  INCONCLUSIVE %s / %s: %s" % (o["job"], o["name"], o["verdict"]))
        for n in notes[:10]:
            print("  note:", short(n, 400))
    return status
