"""symx.core -- symbolic values and the fork/re-execute path explorer.

The repository's own function bodies are executed on the proxy values defined
here; every operation builds a z3 term, every truth test of a symbolic boolean
is a branch point decided by the explorer.  Nothing in this file knows about
SPAKE2.
"""
import time, os
import z3

import sys
if hasattr(sys, "set_int_max_str_digits"):
    sys.set_int_max_str_digits(0)          # bounds such as 256**5000 are handed to z3 as decimal numerals
SEED = int(os.environ.get("VERIF_SEED", "0") or 0)
z3.set_param("smt.random_seed", SEED % (2 ** 31))
z3.set_param("sat.random_seed", SEED % (2 ** 31))


# cross-check every n-th discharged obligation with cvc5 (0 = off); the thorough tier sets VERIF_XCHECK=5
XCHECK_EVERY = int(os.environ.get("VERIF_XCHECK", "0") or 0)


class EngineUnsupported(Exception):
    """a construct the proxies cannot model: the run is inconclusive, never pass/fail"""


class PathAbort(BaseException):
    """abandon the current path (infeasible, or cut by a stated cap)"""
    def __init__(self, why="infeasible"):
        BaseException.__init__(self, why)
        self.why = why


# --------------------------------------------------------------------- context
class Ctx:
    cur = None
    FEAS_MS = 2000
    MAX_DEPTH = 600
    NPROVED = 0

    def __init__(self, prefix=()):
        self.solver = z3.Solver()
        self.solver.set("timeout", self.FEAS_MS)
        self.pc = []          # branch decisions taken on this path
        self.side = []        # definitional / range constraints (always true of the values)
        self._nadded = [0, 0]
        self.prefix = list(prefix)
        self.pos = 0
        self.depth = 0
        self.work = []
        self.nfresh = 0
        self.queries = 0
        self.solver_s = 0.0
        self.data = {}        # per-path tables of the domain layers (hash applications, encodings, ...)
        self.axiom_providers = []   # callables -> list of z3 facts used only in final obligations
        self.notes = []
        self.inputs = []      # harness-level input variables (var, lo, hi): pinned by refutation hints

    # -- variables
    def fresh(self, name, lo=None, hi=None):
        self.nfresh += 1
        v = z3.Int("%s!%d" % (name, self.nfresh))
        if lo is not None:
            self.side.append(v >= lo)
        if hi is not None:
            self.side.append(v <= hi)
        return v

    def fresh_bool(self, name):
        self.nfresh += 1
        return z3.Bool("%s!%d" % (name, self.nfresh))

    def assume(self, fact):
        """harness-level assumption: placed before the code it constrains"""
        self.side.append(fact if z3.is_expr(fact) else B(fact))

    def table(self, name):
        return self.data.setdefault(name, [])

    # -- solver plumbing
    def _sync(self):
        for i, lst in enumerate((self.side, self.pc)):
            n = self._nadded[i]
            if n < len(lst):
                self.solver.add(*lst[n:])
                self._nadded[i] = len(lst)

    def feasible(self, *extra):
        self._sync()
        t = time.time()
        self.queries += 1
        self.solver.push()
        try:
            if extra:
                self.solver.add(*extra)
            r = str(self.solver.check())
        finally:
            self.solver.pop()
        self.solver_s += time.time() - t
        return r

    def axioms(self):
        out = []
        for p in self.axiom_providers:
            out.extend(p(self))
        return out

    def branch(self, cond):
        c = z3.simplify(cond)
        if z3.is_true(c):
            return True
        if z3.is_false(c):
            return False
        # prefix entries: 0/1 = decision at a genuine fork, 2/3 = forced decision (only one side feasible).  Only genuine
        # forks count towards MAX_DEPTH (a 257-byte string formatted byte by byte makes hundreds of forced decisions);
        # a hard cap on all decisions stops runaway loops
        if self.depth >= self.MAX_DEPTH or self.pos >= 40 * self.MAX_DEPTH:
            raise PathAbort("depth-cap")
        if self.pos < len(self.prefix):
            e = int(self.prefix[self.pos])
        else:
            rt = self.feasible(c)
            if rt == "unsat":
                e = 2
            else:
                rf = self.feasible(z3.Not(c))
                if rf == "unsat":
                    e = 3
                else:
                    e = 1
                    self.work.append(self.prefix[:self.pos] + [0])
            self.prefix = self.prefix[:self.pos] + [e]
        self.pos += 1
        if e < 2:
            self.depth += 1
        d = bool(e & 1)
        self.pc.append(c if d else z3.Not(c))
        return d

    # -- final obligations (all axioms, longer timeout, fresh solver)
    def solve(self, *extra, timeout_ms=60000, with_axioms=True, tactic=None):
        s = z3.Solver() if tactic is None else z3.Then(*tactic).solver()
        s.set("timeout", timeout_ms)
        s.add(*self.side)
        s.add(*self.pc)
        if with_axioms:
            s.add(*self.axioms())
        s.add(*extra)
        t = time.time()
        self.queries += 1
        r = str(s.check())
        self.solver_s += time.time() - t
        return r, (s.model() if r == "sat" else None), s

    XCHECK = dict(unsat=0, unknown=0, disagree=0, secs=0.0)

    def crosscheck(self, s, timeout_ms=15000):
        """second opinion on a discharged obligation: the same query through cvc5 (SMT-LIB export). Only ever used to
        re-check `unsat`; a cvc5 `sat` downgrades the obligation to unknown (solvers disagree)."""
        try:
            import cvc5
        except Exception:
            return None
        t = time.time()
        res = None
        try:
            slv = cvc5.Solver()
            slv.setOption("tlimit-per", str(timeout_ms))
            slv.setLogic("ALL")
            p = cvc5.InputParser(slv)
            p.setStringInput(cvc5.InputLanguage.SMT_LIB_2_6, s.to_smt2(), "q")
            sm = p.getSymbolManager()
            while True:
                cmd = p.nextCommand()
                if cmd.isNull():
                    break
                o = str(cmd.invoke(slv, sm)).strip()
                if o in ("sat", "unsat", "unknown"):
                    res = o
        except Exception:
            res = "unknown"
        X = Ctx.XCHECK
        X["secs"] += time.time() - t
        if res == "unsat":
            X["unsat"] += 1
        elif res == "sat":
            X["disagree"] += 1
        else:
            X["unknown"] += 1
        return res

    def refute_with_hints(self, claim, tries=3, timeout_ms=4000, extra=()):
        """look for a counterexample with the harness inputs pinned to pool values (never part of a proof)"""
        import random
        rnd = random.Random(SEED * 7919 + len(self.pc))
        claim = claim if z3.is_expr(claim) else B(claim)
        for k in range(tries):
            pins = []
            for (v, lo, hi) in self.inputs:
                val = lo if k == 0 else (min(hi, lo + 1) if k == 1 else rnd.randint(lo, hi))
                pins.append(v == val)
            r, m, _ = self.solve(z3.Not(claim), *pins, *extra, timeout_ms=timeout_ms, with_axioms=(k != 2))
            if r == "sat":
                return m
        return None

    def prove(self, claim, timeout_ms=60000, extra=(), retry=True):
        """verdict on  side & pc & axioms |= claim : 'unsat' means proved"""
        claim = claim if z3.is_expr(claim) else B(claim)
        r, m, s = self.solve(z3.Not(claim), *extra, timeout_ms=timeout_ms)
        if r == "unsat" and XCHECK_EVERY and (sum(Ctx.XCHECK[k] for k in ("unsat", "unknown", "disagree")) * XCHECK_EVERY
                                               <= Ctx.NPROVED):
            if self.crosscheck(s) == "sat":
                r = "unknown"
        if r == "unsat":
            Ctx.NPROVED += 1
        if r == "unknown" and retry:
            # second configuration before giving up
            r2, m2, s2 = self.solve(z3.Not(claim), *extra, timeout_ms=timeout_ms,
                                    tactic=("simplify", "solve-eqs", "smt"))
            if r2 != "unknown":
                return r2, m2, s2
        return r, m, s


class PathResult:
    __slots__ = ("ctx", "kind", "value")

    def __init__(self, ctx, kind, value):
        self.ctx, self.kind, self.value = ctx, kind, value   # kind: ret | exc | unsupported

    def exc_name(self):
        return type(self.value).__name__ if self.kind == "exc" else None


def explore(fn, max_paths=400, allowed_exc=(Exception,)):
    """run fn(ctx) once per feasible path.  Returns (results, stats)."""
    results = []
    work = [[]]
    stats = dict(paths=0, infeasible=0, truncated=0, leftover=0, queries=0, solver_s=0.0, unsupported=0, capped=0)
    while work:
        if stats["paths"] >= max_paths:
            stats["leftover"] = len(work)
            stats["truncated"] += len(work)
            break
        prefix = work.pop()
        ctx = Ctx(prefix)
        Ctx.cur = ctx
        out = None
        try:
            out = PathResult(ctx, "ret", fn(ctx))
        except PathAbort as e:
            if e.why == "infeasible":
                stats["infeasible"] += 1
            else:
                stats["truncated"] += 1
                if e.why == "depth-cap":
                    stats["capped"] += 1
                ctx.notes.append("cut: " + e.why)
        except EngineUnsupported as e:
            stats["unsupported"] += 1
            out = PathResult(ctx, "unsupported", e)
        except allowed_exc as e:
            out = PathResult(ctx, "exc", e)
        work.extend(ctx.work)
        stats["paths"] += 1
        stats["queries"] += ctx.queries
        stats["solver_s"] += ctx.solver_s
        ctx.queries = 0
        ctx.solver_s = 0.0
        if out is not None:
            results.append(out)
    stats["solver_s"] = round(stats["solver_s"], 3)
    return results, stats


# ---------------------------------------------------------------- term helpers
def T(o):
    if isinstance(o, SymInt):
        return o.t
    if isinstance(o, SymBool):
        return z3.If(o.t, z3.IntVal(1), z3.IntVal(0))
    if isinstance(o, bool):
        return z3.IntVal(int(o))
    if isinstance(o, int):
        return z3.IntVal(o)
    if z3.is_expr(o):
        return o
    raise EngineUnsupported("integer term of %r" % (type(o).__name__,))


def B(o):
    if isinstance(o, SymBool):
        return o.t
    if isinstance(o, bool):
        return z3.BoolVal(o)
    if z3.is_expr(o) and z3.is_bool(o):
        return o
    if isinstance(o, SymInt):
        return o.t != 0
    raise EngineUnsupported("boolean term of %r" % (type(o).__name__,))


def is_sym(o):
    return isinstance(o, (SymInt, SymBool, SymBytes, SymHex))


class SymBool:
    __slots__ = ("t",)

    def __init__(self, t):
        self.t = t

    def __bool__(self):
        return Ctx.cur.branch(self.t)

    def __eq__(self, o):
        return SymBool(self.t == B(o))

    def __ne__(self, o):
        return SymBool(self.t != B(o))

    def __invert__(self):
        return SymBool(z3.Not(self.t))

    __hash__ = None


MUL = z3.Function("MUL", z3.IntSort(), z3.IntSort(), z3.IntSort())


class Flags:
    abstract_mul = False      # symbolic*symbolic -> uninterpreted MUL (forking runs over field code)
    pow_stub = None           # domain-specific contract for pow() with symbolic operands
    bitlen_bound = 64         # bit_length() of a symbolic int forks over 0..bound
    mul_hook = None           # domain layer may reinterpret a product of two symbolic ints
    int_lift = None           # domain layer may reclassify an integer produced by int(hex, 16)


def _isint(o):
    return isinstance(o, (int, SymInt, SymBool))


class SymInt:
    """Python int -> z3 Int, Python semantics (floor div/mod)."""

    def __init__(self, t, unmod=None):
        self.t = t
        self.unmod = unmod       # (term, modulus) if this value was produced by  term % modulus

    # arithmetic
    def __add__(s, o):
        return SymInt(s.t + T(o)) if _isint(o) else NotImplemented
    __radd__ = __add__

    def __sub__(s, o):
        return SymInt(s.t - T(o)) if _isint(o) else NotImplemented

    def __rsub__(s, o):
        return SymInt(T(o) - s.t) if _isint(o) else NotImplemented

    def __mul__(s, o):
        if not _isint(o):
            return NotImplemented
        if Flags.mul_hook is not None and isinstance(o, SymInt):
            r = Flags.mul_hook(s, o)
            if r is not None:
                return r
        if Flags.abstract_mul and isinstance(o, SymInt):
            a, b = (s.t, o.t) if s.t.get_id() <= o.t.get_id() else (o.t, s.t)
            return SymInt(MUL(a, b))
        return SymInt(s.t * T(o))
    __rmul__ = __mul__

    def __neg__(s):
        return SymInt(-s.t)

    def __pos__(s):
        return s

    def __abs__(s):
        return SymInt(z3.If(s.t >= 0, s.t, -s.t))

    def __mod__(s, o):
        if isinstance(o, int) and not isinstance(o, bool):
            if o > 0:
                return SymInt(s.t % o, unmod=(s.t, o))
            raise EngineUnsupported("mod by non-positive constant")
        if isinstance(o, SymInt):
            if not (o > 0):
                raise EngineUnsupported("mod by non-positive symbolic value")
            return SymInt(s.t % o.t, unmod=(s.t, o.t))
        return NotImplemented

    def __rmod__(s, o):
        if not _isint(o):
            return NotImplemented
        if not (s > 0):
            raise EngineUnsupported("mod by non-positive symbolic value")
        return SymInt(T(o) % s.t, unmod=(T(o), s.t))

    def __floordiv__(s, o):
        if isinstance(o, int) and o > 0:
            return SymInt(s.t / o)
        if isinstance(o, SymInt):
            if not (o > 0):
                raise EngineUnsupported("floordiv by non-positive symbolic value")
            return SymInt(s.t / o.t)
        raise EngineUnsupported("floordiv")

    def __rfloordiv__(s, o):
        if not (s > 0):
            raise EngineUnsupported("floordiv by non-positive symbolic value")
        return SymInt(T(o) / s.t)

    def __truediv__(s, o):
        raise EngineUnsupported("float division of a symbolic int")
    __rtruediv__ = __truediv__

    def __rshift__(s, k):
        if isinstance(k, int) and k >= 0:
            return SymInt(s.t / (1 << k))
        raise EngineUnsupported(">> by symbolic amount")

    def __lshift__(s, k):
        if isinstance(k, int) and k >= 0:
            return SymInt(s.t * (1 << k))
        raise EngineUnsupported("<< by symbolic amount")

    def __rlshift__(s, o):
        # const << sym : only used as (1 << leftover_bits) with leftover in 0..7: fork over the values
        for k in range(0, 4096):
            if s == k:
                return o << k
        raise EngineUnsupported("const << sym beyond 4095")

    def __and__(s, m):
        if isinstance(m, int) and not isinstance(m, bool) and m >= 0:
            if m == 0:
                return 0
            if m & (m + 1) == 0:                       # low-bit mask 2^k-1
                return SymInt(s.t % (m + 1))
            if m & (m - 1) == 0:                       # single bit
                return SymInt(((s.t / m) % 2) * m)
            low = m & -m                                # contiguous run of ones: (x >> a) & (2^b-1) << a
            run = m // low
            if run & (run + 1) == 0:
                return SymInt(((s.t / low) % (run + 1)) * low)
        raise EngineUnsupported("& with %r" % (m,))
    __rand__ = __and__

    def __or__(s, m):
        if isinstance(m, int) and m >= 0 and m & (m - 1) == 0 and m > 0:    # set a single bit
            return SymInt(s.t + (1 - (s.t / m) % 2) * m)
        if isinstance(m, int) and m == 0:
            return s
        raise EngineUnsupported("| with %r" % (m,))
    __ror__ = __or__

    # comparisons
    def __lt__(s, o):
        return SymBool(s.t < T(o))

    def __le__(s, o):
        return SymBool(s.t <= T(o))

    def __gt__(s, o):
        return SymBool(s.t > T(o))

    def __ge__(s, o):
        return SymBool(s.t >= T(o))

    def __eq__(s, o):
        if _isint(o):
            return SymBool(s.t == T(o))
        return False

    def __ne__(s, o):
        if _isint(o):
            return SymBool(s.t != T(o))
        return True
    __hash__ = None

    def __bool__(s):
        return Ctx.cur.branch(s.t != 0)

    def __index__(s):
        raise EngineUnsupported("concretisation of a symbolic int (__index__)")

    def __int__(s):
        raise EngineUnsupported("concretisation of a symbolic int (__int__)")

    def __pow__(s, e, m=None):
        return sym_pow(s, e, m)

    def __rpow__(s, b, m=None):
        return sym_pow(b, s, m)

    def __format__(s, spec):
        """format(n, '064x') / f'{n:064x}': Python insists on a real str, so a token string stands in for the symbolic hex
        text; the models of unhexlify / int(.,16) / bytes.fromhex / join recognise the token (symx.env._detok)"""
        import re
        m = re.fullmatch(r"0(\d+)x", spec or "")
        if not m:
            raise EngineUnsupported("format spec %r of a symbolic int" % (spec,))
        from . import env
        h = env.sym_mod("%0" + m.group(1) + "x", s)
        return env.hex_token(h)

    def to_bytes(s, length, byteorder="big", signed=False):
        if signed or isinstance(length, SymInt):
            raise EngineUnsupported("int.to_bytes with signed/symbolic length")
        if s < 0:
            raise OverflowError("can't convert negative int to unsigned")
        if not (s < 256 ** length):
            raise OverflowError("int too big to convert")
        b = SymBytes.from_int(s.t, length)
        return b if byteorder == "big" else b[::-1]

    def bit_length(s):
        # fork over the bit length within the stated bound
        a = SymInt(z3.If(s.t >= 0, s.t, -s.t))
        if a == 0:
            return 0
        for k in range(1, Flags.bitlen_bound + 1):
            if a < (1 << k):
                return k
        raise PathAbort("bit_length beyond bound %d" % Flags.bitlen_bound)

    def __repr__(s):
        return "SymInt(%s)" % (str(s.t)[:80],)


def sym_pow(b, e, m=None):
    if not any(isinstance(v, SymInt) for v in (b, e, m)):
        return pow(b, e, m)
    if isinstance(e, int) and m is None and 0 <= e <= 4:
        r = 1
        for _ in range(e):
            r = r * b
        return r
    if Flags.pow_stub is not None:
        return Flags.pow_stub(b, e, m)
    raise EngineUnsupported("pow with symbolic operand and no contract in force")


# ------------------------------------------------------------------- byte strings
class Chunk:
    """n bytes whose big-endian value is the integer term val (0 <= val < 256^n is a side fact)"""
    __slots__ = ("val", "n", "_bytes")

    def __init__(self, val, n):
        self.val, self.n, self._bytes = val, n, None

    def bytes(self):
        if self._bytes is None:
            c = Ctx.cur
            bs = [c.fresh("b", 0, 255) for _ in range(self.n)]
            acc = z3.IntVal(0)
            for b in bs:
                acc = acc * 256 + b
            c.side.append(acc == self.val)
            self._bytes = bs
        return self._bytes


def _atom_len(a):
    return a.n if isinstance(a, Chunk) else 1


class SymBytes:
    """byte string of concrete length and symbolic content.

    parts: list of atoms; an atom is a Python int (concrete byte), a z3 Int term
    (one byte) or a Chunk (n bytes remembered as one integer)."""

    def __init__(self, parts):
        self.parts = [p for p in parts if not (isinstance(p, Chunk) and p.n == 0)]
        self._n = sum(_atom_len(a) for a in self.parts)
        self._rev_of = None      # set when this string is the full reversal of another one

    # -- construction
    @classmethod
    def fresh(cls, name, n):
        c = Ctx.cur
        vs = [c.fresh("%s_%d" % (name, i), 0, 255) for i in range(n)]
        c.inputs.extend((v, 0, 255) for v in vs)
        return cls(vs)

    @classmethod
    def fresh_chunk(cls, name, n):
        """n arbitrary bytes kept as one integer (for long strings that are only compared/hashed)"""
        if n == 0:
            return cls([])
        c = Ctx.cur
        v = c.fresh(name, 0, 256 ** n - 1)
        c.inputs.append((v, 0, 256 ** n - 1))
        return cls([Chunk(v, n)])

    @classmethod
    def from_int(cls, val, n):
        return cls([Chunk(val, n)]) if n else cls([])

    @classmethod
    def of(cls, b):
        if isinstance(b, SymBytes):
            return b
        if isinstance(b, (bytes, bytearray)):
            return cls(list(b))
        if isinstance(b, SymByteArray):
            return cls(list(b.cells))
        raise EngineUnsupported("byte string of %r" % (type(b).__name__,))

    def is_concrete(self):
        return all(isinstance(a, int) for a in self.parts)

    def concrete(self):
        return bytes(self.parts)

    # -- structure
    def __len__(self):
        return self._n

    def items(self):
        out = []
        for a in self.parts:
            if isinstance(a, Chunk):
                out.extend(a.bytes())
            else:
                out.append(a)
        return out

    def _slice(self, lo, hi):
        """bytes lo..hi-1, keeping chunks that lie wholly inside"""
        out = []
        pos = 0
        for a in self.parts:
            n = _atom_len(a)
            s, e = pos, pos + n
            pos = e
            if e <= lo or s >= hi:
                continue
            if s >= lo and e <= hi:
                out.append(a)
            else:
                bs = a.bytes()
                out.extend(bs[max(lo, s) - s: min(hi, e) - s])
        return SymBytes(out)

    def __getitem__(self, k):
        if isinstance(k, slice):
            start, stop, step = k.indices(self._n)
            if step == 1:
                if start == 0 and stop >= self._n:
                    return self
                return self._slice(start, max(start, stop))
            if step == -1 and len(range(start, stop, step)) == self._n:
                if self._rev_of is not None:
                    return self._rev_of
                out = SymBytes(self.items()[::-1])
                out._rev_of = self
                return out
            return SymBytes(self.items()[k])
        if isinstance(k, SymInt):
            raise EngineUnsupported("symbolic index into bytes")
        if k < 0:
            k += self._n
        if not 0 <= k < self._n:
            raise IndexError("index out of range")
        v = self._slice(k, k + 1).parts[0]
        return v if isinstance(v, int) else SymInt(v)

    def __iter__(self):
        return iter([v if isinstance(v, int) else SymInt(v) for v in self.items()])

    def __add__(self, o):
        try:
            return SymBytes(self.parts + SymBytes.of(o).parts)
        except EngineUnsupported:
            return NotImplemented

    def __radd__(self, o):
        try:
            return SymBytes(SymBytes.of(o).parts + self.parts)
        except EngineUnsupported:
            return NotImplemented

    def value(self):
        acc = None
        for a in self.parts:
            if isinstance(a, Chunk):
                acc = a.val if acc is None else acc * (256 ** a.n) + a.val
            else:
                acc = T(a) if acc is None else acc * 256 + T(a)
        return z3.IntVal(0) if acc is None else acc

    # -- comparison
    def eq_term(self, o):
        try:
            o = SymBytes.of(o)
        except EngineUnsupported:
            return z3.BoolVal(False)
        if len(o) != self._n:
            return z3.BoolVal(False)
        if self._rev_of is not None and o._rev_of is not None:
            return self._rev_of.eq_term(o._rev_of)         # reversal is a bijection
        conj = []
        i = j = 0
        A, Bp = list(self.parts), list(o.parts)
        while i < len(A) and j < len(Bp):
            a, b = A[i], Bp[j]
            la, lb = _atom_len(a), _atom_len(b)
            if la == lb:
                if isinstance(a, Chunk) and isinstance(b, Chunk):
                    conj.append(a.val == b.val)
                elif isinstance(a, Chunk) or isinstance(b, Chunk):    # chunk of 1 byte vs byte
                    av = a.val if isinstance(a, Chunk) else T(a)
                    bv = b.val if isinstance(b, Chunk) else T(b)
                    conj.append(av == bv)
                else:
                    if isinstance(a, int) and isinstance(b, int):
                        if a != b:
                            return z3.BoolVal(False)
                    else:
                        conj.append(T(a) == T(b))
                i += 1
                j += 1
                continue
            # misaligned: a chunk against several atoms.  Compare the chunk's value with the
            # value of the run of atoms it covers when the run ends on a boundary, else split into bytes.
            if la > lb:
                run, k, tot = [], j, 0
                while k < len(Bp) and tot < la:
                    run.append(Bp[k]); tot += _atom_len(Bp[k]); k += 1
                if tot == la:
                    conj.append(a.val == SymBytes(run).value())
                    i += 1; j = k
                    continue
                A[i:i + 1] = a.bytes()
            else:
                run, k, tot = [], i, 0
                while k < len(A) and tot < lb:
                    run.append(A[k]); tot += _atom_len(A[k]); k += 1
                if tot == lb:
                    conj.append(b.val == SymBytes(run).value())
                    j += 1; i = k
                    continue
                Bp[j:j + 1] = b.bytes()
        return z3.And(conj) if conj else z3.BoolVal(True)

    def __eq__(self, o):
        return _mk_bool(self.eq_term(o))

    def __ne__(self, o):
        return _mk_bool(z3.Not(self.eq_term(o)))
    __hash__ = None

    def lt_term(self, o, strict=True):
        o = SymBytes.of(o)
        m = min(self._n, len(o))
        pa, pb = self._slice(0, m).value(), o._slice(0, m).value()
        shorter = self._n < len(o) if strict else self._n <= len(o)
        if m == 0:
            return z3.BoolVal(shorter)
        return z3.Or(pa < pb, z3.And(pa == pb, z3.BoolVal(shorter)))

    def __lt__(self, o):
        return _mk_bool(self.lt_term(o, True))

    def __le__(self, o):
        return _mk_bool(self.lt_term(o, False))

    def __gt__(self, o):
        return _mk_bool(SymBytes.of(o).lt_term(self, True))

    def __ge__(self, o):
        return _mk_bool(SymBytes.of(o).lt_term(self, False))

    def hex(self):
        return SymHex(self)

    # -- bytes methods that inspect content: decided per byte, forking on the symbolic ones
    def _strip(self, chars, left, right):
        ws = bytes(chars) if chars is not None else b" \t\n\r\x0b\x0c"
        items = self.items()
        lo, hi = 0, len(items)

        def member(a):
            if isinstance(a, int):
                return a in ws
            return bool(_mk_bool(z3.Or([T(a) == c for c in ws]))) if ws else False
        while left and lo < hi and member(items[lo]):
            lo += 1
        while right and hi > lo and member(items[hi - 1]):
            hi -= 1
        return self if (lo, hi) == (0, len(items)) else self._slice(lo, hi)

    def strip(self, chars=None):
        return self._strip(chars, True, True)

    def lstrip(self, chars=None):
        return self._strip(chars, True, False)

    def rstrip(self, chars=None):
        return self._strip(chars, False, True)

    def startswith(self, prefix, *a):
        if a or isinstance(prefix, tuple):
            raise EngineUnsupported("bytes.startswith with offsets/tuple on symbolic bytes")
        prefix = SymBytes.of(prefix)
        if len(prefix) > self._n:
            return False
        return self._slice(0, len(prefix)) == prefix

    def endswith(self, suffix, *a):
        if a or isinstance(suffix, tuple):
            raise EngineUnsupported("bytes.endswith with offsets/tuple on symbolic bytes")
        suffix = SymBytes.of(suffix)
        if len(suffix) > self._n:
            return False
        return self._slice(self._n - len(suffix), self._n) == suffix

    def __mul__(self, k):
        if isinstance(k, int) and not isinstance(k, bool):
            return SymBytes(self.parts * max(k, 0))
        return NotImplemented
    __rmul__ = __mul__

    def __getattr__(self, name):
        if not name.startswith("_") and hasattr(bytes, name):
            raise EngineUnsupported("bytes.%s on symbolic bytes" % name)
        raise AttributeError(name)

    def decode(self, enc="ascii"):
        if self.is_concrete():
            return self.concrete().decode(enc)
        raise EngineUnsupported("decode of symbolic bytes")

    def __repr__(self):
        return "SymBytes(len=%d)" % self._n

    def model_bytes(self, model):
        if model is None:           # no model: a fixed pattern from the concretisation pool
            return bytes((7 * i + 1) % 256 for i in range(self._n))
        out = bytearray()
        for v in self.items():
            if isinstance(v, int):
                out.append(v)
            else:
                out.append(model.eval(v, model_completion=True).as_long() % 256)
        return bytes(out)


class SymByteArray:
    """mutable byte array of concrete length: one atom (concrete int or z3 byte term) per cell"""

    def __init__(self, cells):
        self.cells = list(cells)

    def __len__(self):
        return len(self.cells)

    def _wrap(self, v):
        return v if isinstance(v, int) else SymInt(v)

    def __getitem__(self, k):
        if isinstance(k, slice):
            return SymByteArray(self.cells[k])
        if isinstance(k, SymInt):
            raise EngineUnsupported("symbolic index into bytearray")
        return self._wrap(self.cells[k])

    def __setitem__(self, k, v):
        if isinstance(k, slice):
            self.cells[k] = list(SymBytes.of(v).items()) if not isinstance(v, (list, tuple)) else [T_or_int(x) for x in v]
            return
        if isinstance(k, SymInt):
            raise EngineUnsupported("symbolic index into bytearray")
        if isinstance(v, SymInt):
            c = Ctx.cur
            if not bool(_mk_bool(z3.And(v.t >= 0, v.t <= 255))):
                raise ValueError("byte must be in range(0, 256)")
            self.cells[k] = v.t
        else:
            if not 0 <= v <= 255:
                raise ValueError("byte must be in range(0, 256)")
            self.cells[k] = int(v)

    def __iter__(self):
        return iter([self._wrap(v) for v in self.cells])

    def append(self, v):
        self.cells.append(None)
        try:
            self[len(self.cells) - 1] = v
        except BaseException:
            self.cells.pop()
            raise

    def extend(self, vs):
        for v in (SymBytes.of(vs) if isinstance(vs, (bytes, bytearray, SymBytes, SymByteArray)) else vs):
            self.append(v)

    def reverse(self):
        self.cells.reverse()

    def __add__(self, o):
        return SymByteArray(self.cells + list(SymBytes.of(o).items()))

    def __eq__(self, o):
        return SymBytes.of(self) == o

    def __ne__(self, o):
        return SymBytes.of(self) != o
    __hash__ = None

    def hex(self):
        return SymBytes.of(self).hex()

    def __getattr__(self, name):
        if not name.startswith("_") and hasattr(bytearray, name):
            raise EngineUnsupported("bytearray.%s on a symbolic bytearray" % name)
        raise AttributeError(name)


def T_or_int(x):
    return x.t if isinstance(x, SymInt) else int(x)


def _mk_bool(t):
    t = z3.simplify(t)
    if z3.is_true(t):
        return True
    if z3.is_false(t):
        return False
    return SymBool(t)


class SymHex:
    """lower-case hex text of a SymBytes: what hexlify returns and what '%0Nx' builds"""

    def __init__(self, b):
        self.b = SymBytes.of(b)

    def encode(self, enc="ascii"):
        return self

    def decode(self, enc="ascii"):
        return self

    def __len__(self):
        return 2 * len(self.b)

    @staticmethod
    def _of(o):
        if isinstance(o, SymHex):
            return o
        if isinstance(o, (str, bytes)):
            s = o if isinstance(o, str) else o.decode("latin-1")
            if len(s) % 2 == 0 and all(c in "0123456789abcdef" for c in s):
                return SymHex(bytes.fromhex(s))
        return None

    def __eq__(self, o):
        h = SymHex._of(o)
        if h is None:
            if isinstance(o, (str, bytes)) and len(o) != len(self):
                return False
            if isinstance(o, (str, bytes)):
                # equal length, but upper-case / non-hex text can never equal lower-case hex
                return False
            return False
        return self.b == h.b

    def __ne__(self, o):
        r = self.__eq__(o)
        return (not r) if isinstance(r, bool) else SymBool(z3.Not(r.t))
    __hash__ = None

    def __repr__(self):
        return "SymHex(len=%d)" % len(self)


def model_int(model, term, default=1):
    if model is None:
        return default
    v = model.eval(T(term), model_completion=True)
    return v.as_long()
