"""symx.poly -- polynomial-domain proxies: the field kernels run on integer-polynomial terms where
`% Q` is the ring homomorphism Z -> Z/Q (erased).  Identities proved over Z hold mod Q."""
import z3
from .core import SymInt, T, EngineUnsupported


class PolyInt(SymInt):
    MODULUS = None

    def _w(self, r):
        return PolyInt(r.t) if isinstance(r, SymInt) else r

    def __add__(s, o): return s._w(SymInt.__add__(s, o))
    __radd__ = __add__
    def __sub__(s, o): return s._w(SymInt.__sub__(s, o))
    def __rsub__(s, o): return s._w(SymInt.__rsub__(s, o))
    def __mul__(s, o): return s._w(SymInt.__mul__(s, o))
    __rmul__ = __mul__
    def __neg__(s): return PolyInt(-s.t)

    def __mod__(s, m):
        if isinstance(m, int) and m == PolyInt.MODULUS:
            return s
        raise EngineUnsupported("polynomial domain: %% by %r" % (m,))


class SE:
    """the same idea on sympy expressions (used to find cofactor certificates)"""
    MODULUS = None

    def __init__(s, e):
        import sympy as sp
        s.e = sp.sympify(e)

    @staticmethod
    def l(o):
        return o if isinstance(o, SE) else SE(o)

    def __add__(a, b): return SE(a.e + SE.l(b).e)
    __radd__ = __add__
    def __neg__(a): return SE(-a.e)
    def __sub__(a, b): return SE(a.e - SE.l(b).e)
    def __rsub__(a, b): return SE(SE.l(b).e - a.e)
    def __mul__(a, b): return SE(a.e * SE.l(b).e)
    __rmul__ = __mul__

    def __mod__(a, m):
        if m == SE.MODULUS:
            return a
        raise EngineUnsupported("polynomial domain: %% by %r" % (m,))

    def __bool__(a):
        raise EngineUnsupported("data-dependent branch in a field kernel (sympy run)")

    def __eq__(a, b):
        raise EngineUnsupported("comparison in a field kernel (sympy run)")
    __hash__ = None


def sympy_to_z3(expr, env):
    """integer-coefficient sympy polynomial -> z3 Int term"""
    import sympy as sp
    expr = sp.expand(expr)
    if expr.is_Integer:
        return z3.IntVal(int(expr))
    if expr.is_Symbol:
        return env[str(expr)]
    if expr.is_Add:
        acc = None
        for a in expr.args:
            t = sympy_to_z3(a, env)
            acc = t if acc is None else acc + t
        return acc
    if expr.is_Mul:
        acc = None
        for a in expr.args:
            t = sympy_to_z3(a, env)
            acc = t if acc is None else acc * t
        return acc
    if expr.is_Pow and expr.exp.is_Integer and int(expr.exp) >= 0:
        b = sympy_to_z3(expr.base, env)
        acc = z3.IntVal(1)
        for _ in range(int(expr.exp)):
            acc = acc * b
        return acc
    raise EngineUnsupported("sympy node %r" % (expr,))


def z3_to_sympy(t, cache=None):
    """z3 Int polynomial term (+, -, *, unary -, numerals, Int constants) -> sympy expression"""
    import sympy as sp
    cache = {} if cache is None else cache
    k = t.get_id()
    if k in cache:
        return cache[k]
    if z3.is_int_value(t):
        r = sp.Integer(t.as_long())
    elif z3.is_const(t) and t.decl().kind() == z3.Z3_OP_UNINTERPRETED:
        r = sp.Symbol(str(t))
    elif z3.is_app(t):
        kind = t.decl().kind()
        args = [z3_to_sympy(a, cache) for a in t.children()]
        if kind == z3.Z3_OP_ADD:
            r = sp.Add(*args)
        elif kind == z3.Z3_OP_MUL:
            r = sp.Mul(*args)
        elif kind == z3.Z3_OP_SUB:
            r = args[0] - sp.Add(*args[1:])
        elif kind == z3.Z3_OP_UMINUS:
            r = -args[0]
        else:
            raise EngineUnsupported("non-polynomial z3 node %s" % t.decl().name())
    else:
        raise EngineUnsupported("z3 node %r" % (t,))
    cache[k] = r
    return r


def congruence_witness(lhs, rhs, Q):
    """lhs, rhs: z3 Int polynomial terms.  Returns a z3 term K with lhs - rhs == Q*K as polynomials over Z (so lhs = rhs
    mod Q), the integer 0 when lhs - rhs is the zero polynomial, or None when some coefficient is not divisible by Q"""
    import sympy as sp
    diff = sp.expand(z3_to_sympy(lhs) - z3_to_sympy(rhs))
    if diff == 0:
        return 0
    syms = sorted(diff.free_symbols, key=str)
    P = sp.Poly(diff, *syms) if syms else None
    coeffs = P.coeffs() if P is not None else [diff]
    if any(int(c) % Q for c in coeffs):
        return None
    if P is None:
        return z3.IntVal(int(diff) // Q)
    Kexpr = sp.Poly.from_dict({m: int(c) // Q for m, c in P.terms()}, *syms).as_expr()
    return sympy_to_z3(Kexpr, {str(x): z3.Int(str(x)) for x in syms})
