"""symx.dlog -- exponent domain for the real IntegerGroup code.

Element values of one concrete IntegerGroup object are carried as g^log mod p: the proxy's integer term is
VAL(log), its discrete logarithm `log` is a normalised integer polynomial that is never reduced mod q.
The laws of the builtins underneath (contract G1) are supplied here:
  (g^a * g^b) % p = g^(a+b);  pow(g^a, e, p) = g^(a*e);  an exponent written  t % q  contributes t (g^q = 1);
  VAL(a) = VAL(b)  <=>  q | a-b  (added pairwise for the values of a query);
  for an arbitrary residue i in (0,p): pow(i, q, p) == 1 iff i is in <g> (Z_p^* cyclic) -- forks on Member(i).
The real _Element/IntegerGroup methods, util.number_to_bytes etc. run on top, unmodified."""
import z3
from .core import Ctx, SymInt, SymBool, SymBytes, Flags, T, EngineUnsupported, _mk_bool
from .absgroup import norm, strip_mod, norm_mod


class DlogDomain:
    cur = None

    def __init__(self, grp, name="g"):
        self.grp = grp
        self.p, self.q, self.g = grp.p, grp.q, grp.Base._e
        self.VAL = z3.Function("VAL_%s" % name, z3.IntSort(), z3.IntSort())
        self.MEMBER = z3.Function("Member_%s" % name, z3.IntSort(), z3.BoolSort())
        self.DLOG = z3.Function("DLOG_%s" % name, z3.IntSort(), z3.IntSort())
        self.const_logs = {1: z3.IntVal(0), self.g % self.p: z3.IntVal(1)}
        self.name = name

    def log_of_const(self, c):
        c %= self.p
        if c not in self.const_logs:
            if pow(c, self.q, self.p) != 1:
                return None
            v = z3.Int("dlog_%s_%x" % (self.name, c % 2 ** 48))
            self.const_logs[c] = v
        return self.const_logs[c]

    def val_term(self, log, ctx=None):
        """VAL(log) for a normalised log, registered for the pairwise congruence axioms"""
        c = ctx or Ctx.cur
        log = norm_mod(log, self.q)
        t = self.VAL(log)
        tab = c.table("dlog_vals")
        if not any(l.eq(log) for l in tab):
            tab.append(log)
            c.side += [t >= 1, t < self.p]
        return t

    def install(self, ctx):
        DlogDomain.cur = self
        ctx.data["dlog_dom"] = self
        Flags.pow_stub = dlog_pow
        Flags.mul_hook = dlog_mul_hook
        Flags.int_lift = dlog_lift
        if value_axioms not in ctx.axiom_providers:
            ctx.axiom_providers.append(value_axioms)

    def elem_value(self, log):
        return Dlog(log)


class Dlog(SymInt):
    """the integer g^log mod p, 1 <= value < p"""

    def __init__(self, log):
        D = DlogDomain.cur
        self.log = norm_mod(log, D.q)
        SymInt.__init__(self, D.val_term(self.log))

    def __mul__(s, o):
        D = DlogDomain.cur
        if isinstance(o, Dlog):
            return PendingProd(s.log + o.log)
        if isinstance(o, int) and not isinstance(o, bool):
            lg = D.log_of_const(o)
            if lg is not None:
                return PendingProd(s.log + lg)
        return SymInt.__mul__(s, o)
    __rmul__ = __mul__

    def _eq(s, o):
        D = DlogDomain.cur
        if isinstance(o, Dlog):
            return _mk_bool((s.log - o.log) % D.q == 0)
        if isinstance(o, int) and not isinstance(o, bool):
            if 0 < o < D.p:
                lg = D.log_of_const(o)
                if lg is not None:
                    return _mk_bool((s.log - lg) % D.q == 0)
            return False
        return None

    def __eq__(s, o):
        r = s._eq(o)
        return SymInt.__eq__(s, o) if r is None else r

    def __ne__(s, o):
        r = s._eq(o)
        if r is None:
            return SymInt.__ne__(s, o)
        return (not r) if isinstance(r, bool) else SymBool(z3.Not(r.t))
    __hash__ = None

    # static range 1 <= value < p decides comparisons with constants without the solver
    def __lt__(s, o):
        p = DlogDomain.cur.p
        if isinstance(o, int):
            return True if o >= p else (False if o <= 1 else SymInt.__lt__(s, o))
        return SymInt.__lt__(s, o)

    def __le__(s, o):
        p = DlogDomain.cur.p
        if isinstance(o, int):
            return True if o >= p - 1 else (False if o < 1 else SymInt.__le__(s, o))
        return SymInt.__le__(s, o)

    def __gt__(s, o):
        p = DlogDomain.cur.p
        if isinstance(o, int):
            return True if o < 1 else (False if o >= p - 1 else SymInt.__gt__(s, o))
        return SymInt.__gt__(s, o)

    def __ge__(s, o):
        p = DlogDomain.cur.p
        if isinstance(o, int):
            return True if o <= 1 else (False if o >= p else SymInt.__ge__(s, o))
        return SymInt.__ge__(s, o)


class PendingProd(SymInt):
    """the un-reduced product of two subgroup elements: only `% p` is meaningful"""

    def __init__(self, plog):
        self.plog = plog
        SymInt.__init__(self, z3.Int("unreduced_product"))

    def __mod__(s, m):
        if isinstance(m, int) and m == DlogDomain.cur.p:
            return Dlog(s.plog)
        raise EngineUnsupported("product of group elements used other than '% p'")

    def _bad(s, *a, **k):
        raise EngineUnsupported("un-reduced product of group elements used as a number")
    __add__ = __radd__ = __sub__ = __rsub__ = __lt__ = __le__ = __gt__ = __ge__ = __eq__ = __ne__ = _bad
    __hash__ = None


def dlog_lift(v):
    """an integer that is syntactically g^log, or a residue already proved a member, is a Dlog"""
    D = DlogDomain.cur
    if isinstance(v, Dlog) or D is None or not isinstance(v, SymInt):
        return v
    if z3.is_app(v.t) and v.t.decl().eq(D.VAL):
        return Dlog(v.t.arg(0))
    known = Ctx.cur.data.get("member_logs", {})
    if v.t.get_id() in known:
        return Dlog(known[v.t.get_id()])
    return v


def dlog_mul_hook(a, b):
    a2, b2 = dlog_lift(a), dlog_lift(b)
    if isinstance(a2, Dlog) and isinstance(b2, Dlog):
        return PendingProd(a2.log + b2.log)
    return None


def uninstall():
    Flags.pow_stub = None
    Flags.mul_hook = None
    Flags.int_lift = None
    DlogDomain.cur = None


def _exponent(e, q):
    """integer term of an exponent; a value written `t % q` contributes t (g^q = 1)"""
    if isinstance(e, SymInt):
        return strip_mod(e.t, q)
    return T(e)


def dlog_pow(b, e, m):
    D = DlogDomain.cur
    c = Ctx.cur
    if D is None or not (isinstance(m, int) and m == D.p):
        raise EngineUnsupported("pow with a modulus other than the group's p")
    if isinstance(b, Dlog):
        lb = b.log
    elif isinstance(b, int) and not isinstance(b, bool):
        lb = D.log_of_const(b)
        if lb is None:
            raise EngineUnsupported("pow of a constant outside the subgroup")
    elif isinstance(b, SymInt) and z3.is_app(b.t) and b.t.decl().eq(D.VAL):
        lb = b.t.arg(0)                       # the integer is syntactically g^log
    elif isinstance(b, SymInt):
        # an arbitrary residue (decoded from bytes): only the membership test pow(i, q, p) is supported
        key = b.t.get_id()
        known = c.data.setdefault("member_logs", {})
        if key in known:
            lb = known[key]
        else:
            if not (isinstance(e, int) and e == D.q):
                raise EngineUnsupported("pow of a generic residue with exponent != q")
            if SymBool(D.MEMBER(b.t)):
                k = D.DLOG(b.t)
                c.side.append(D.VAL(k) == b.t)
                known[key] = k
                tab = c.table("dlog_vals")
                if not any(l.eq(k) for l in tab):
                    tab.append(k)
                return 1                      # (g^k)^q = 1
            r = c.fresh("pow_nonmember", 0, D.p - 1)
            c.side.append(r != 1)
            return SymInt(r)
    else:
        raise EngineUnsupported("pow base %r" % (b,))
    return Dlog(lb * _exponent(e, D.q))


def value_axioms(ctx):
    """VAL(a) = VAL(b) <=> q | a - b, pairwise over the logs that occur in the query"""
    D = ctx.data.get("dlog_dom")
    if D is None:
        return []
    V = list(ctx.table("dlog_vals"))
    for lg in D.const_logs.values():
        if not any(l.eq(lg) for l in V):
            V.append(lg)
    ax = [D.MEMBER(D.VAL(l)) for l in V]
    for i in range(len(V)):
        for j in range(i):
            ax.append((D.VAL(V[i]) == D.VAL(V[j])) == ((V[i] - V[j]) % D.q == 0))
    for c, lg in D.const_logs.items():
        ax.append(D.VAL(lg) == c)
    return ax


def member_element(ctx, D, name):
    """an arbitrary element of the subgroup as the API could hand it out: (_Element, log)"""
    from . import loader
    G = loader.MODS["groups"]
    k = z3.Int(name)
    return G._Element(D.grp, Dlog(k)), k


def as_dlog(D, e):
    """lift a concrete element value (Base, Zero, M, N, S ...) into the domain"""
    v = e._e
    if isinstance(v, Dlog):
        return v
    lg = D.log_of_const(v)
    if lg is None:
        raise EngineUnsupported("element outside the subgroup")
    return Dlog(lg)
