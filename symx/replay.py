"""symx.replay -- run one concrete oracle of a check module against the plain spake2 package.
stdin: {"module": "checks.c15", "oracle": name, "args": {...}}   stdout (last line): {"violated": bool, "detail": ...}
Also:  python -m symx.replay --file /verif/replays/C15-xxxx.json"""
import sys, json, importlib, traceback


def main():
    from .harness import dec, enc
    if len(sys.argv) >= 3 and sys.argv[1] == "--file":
        spec = json.load(open(sys.argv[2]))
    else:
        spec = json.loads(sys.stdin.read())
    mod = importlib.import_module(spec["module"])
    try:
        res = mod.ORACLES[spec["oracle"]](**dec(spec["args"]))
        if isinstance(res, tuple):
            res = dict(violated=bool(res[0]), detail=res[1], **(res[2] if len(res) > 2 else {}))
        elif not isinstance(res, dict):
            res = dict(violated=bool(res), detail="")
    except Exception:
        res = dict(violated=None, detail="oracle raised: " + traceback.format_exc()[-600:])
    print(json.dumps(enc(res)))
    return 0 if res.get("violated") is False else 1


if __name__ == "__main__":
    sys.exit(main())
